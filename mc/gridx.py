"""GridX — exhaustive evaluation of a predicate over a finite case list (full Cartesian products built by the caller)."""
from __future__ import annotations

import multiprocessing as mp
import os

NPROC = int(os.environ.get("VERIF_NPROC", "16"))
_F = {}


def _call(args):
    i, case = args
    return i, _F["f"](case)


def run(worker, cases, chunksize=None):
    """Applies worker(case) to every case in a fork pool; returns results in case order."""
    _F["f"] = worker
    cases = list(cases)
    if not cases:
        return []
    chunksize = chunksize or max(1, len(cases) // (NPROC * 8))
    with mp.get_context("fork").Pool(NPROC) as pool:
        out = pool.map(_call, list(enumerate(cases)), chunksize=chunksize)
    return [r for _, r in out]
