"""GridX — exhaustive evaluation of a predicate over a finite case list (full Cartesian products built by the caller)."""
from __future__ import annotations

import multiprocessing as mp
import os

NPROC = int(os.environ.get("VERIF_NPROC", "16"))
_F = {}


def _call(args):
    i, case = args
    try:
        return i, _F["f"](case)
    except BaseException as e:  # exceptions may not survive pickling (and would hang the pool): report as text
        import traceback

        lib = raised_in_library(e)
        if lib:
            # the oracle called the library on objects the library itself had accepted, and the library raised: that is a
            # finding about the library, not a harness error
            return i, [(f"LIB:raised-inside-the-oracle:{type(e).__name__}:{lib}", f"{e}"[:200] + f" | case {case!r}"[:200])]
        return i, _WorkerError(f"{type(e).__name__}: {e}\n{traceback.format_exc()[-1500:]}", repr(case)[:300])


def raised_in_library(e: BaseException):
    """'file.py:function' when the innermost frame of the exception is pulser code of the tree under test, else None."""
    import traceback

    repo = os.environ.get("VERIF_REPO", "/repo")
    tb = traceback.extract_tb(e.__traceback__)
    if not tb:
        return None
    last = tb[-1]
    if last.filename.startswith(repo + "/"):
        return f"{os.path.basename(last.filename)}:{last.name}"
    return None


CRASH_TYPES = (IndexError, KeyError, AttributeError, AssertionError, UnboundLocalError, ZeroDivisionError, RecursionError, StopIteration)


def crash_finding(e: BaseException, where: str, what: str = ""):
    """A library REFUSAL (ValueError / TypeError / NotImplementedError ...) while a case is being constructed makes the case not
    applicable.  An IndexError / KeyError / AttributeError / AssertionError ... raised from inside the library is not a refusal but a
    crash on an input the public API let through: returned as a finding [(fingerprint, description)], else None."""
    if isinstance(e, CRASH_TYPES):
        lib = raised_in_library(e)
        if lib:
            return [(f"LIB:crash-while-{where}:{type(e).__name__}:{lib}", f"{e}"[:150] + (f" | {what}"[:250] if what else ""))]
    return None


class _WorkerError:
    def __init__(self, text, case):
        self.text, self.case = text, case


def run(worker, cases, chunksize=None, isolate=False):
    """Applies worker(case) to every case in a fork pool; returns results in case order.
    isolate=True: every case runs in a freshly forked process (no state of the library - caches, class-level tables - can leak
    from one case into the next, so that a verdict depends on the case alone and replays reproduce); histories that are meant to
    share a process are then written as ONE case."""
    _F["f"] = worker
    cases = list(cases)
    if not cases:
        return []
    chunksize = 1 if isolate else (chunksize or max(1, len(cases) // (NPROC * 8)))
    with mp.get_context("fork").Pool(NPROC, maxtasksperchild=1 if isolate else None) as pool:
        out = pool.map(_call, list(enumerate(cases)), chunksize=chunksize)
    for _, r in out:
        if isinstance(r, _WorkerError):
            from mc.evidence import HarnessError

            raise HarnessError(f"grid worker crashed on case {r.case}: {r.text}")
    # vacuity guard: every case must come back with a verdict - a violation or an "@class" marker saying what was decided
    empty = [cases[i] for i, r in out if not r]
    if empty and os.environ.get("VERIF_ALLOW_EMPTY_VERDICTS") != "1":
        from mc.evidence import HarnessError

        raise HarnessError(f"{len(empty)} grid case(s) were evaluated without any verdict (not even an outcome class), e.g. {empty[0]!r}: "
                           "the case list and the evaluator disagree about a case kind")
    return [r for _, r in out]
