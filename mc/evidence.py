"""Result bookkeeping: violations, known findings, replay artefacts, evidence files."""
from __future__ import annotations

import fnmatch
import hashlib
import json
import os
from dataclasses import dataclass, field
from typing import Any

VERIF = os.path.dirname(os.path.dirname(os.path.abspath(__file__)))


class HarnessError(Exception):
    """The check itself is broken or vacuous; never a verdict on the property."""


@dataclass
class Violation:
    fingerprint: str  # identifies the failing case class (used by known_findings.json)
    desc: str  # what fails, one line
    replay: dict  # self-contained payload that mod.replay() can re-execute
    size: int = 0  # for choosing the smallest example per fingerprint


@dataclass
class Result:
    level: str
    coverage: dict = field(default_factory=dict)
    assumptions: list = field(default_factory=list)
    violations: list = field(default_factory=list)
    activations: dict = field(default_factory=dict)  # monitor -> times the clause was exercised
    required_activations: list = field(default_factory=list)

    def add(self, v: Violation) -> None:
        self.violations.append(v)


def jsonable(x: Any) -> Any:
    import numpy as np

    if isinstance(x, dict):
        return {str(k): jsonable(v) for k, v in x.items()}
    if isinstance(x, (list, tuple, set, frozenset)):
        return [jsonable(v) for v in (sorted(x, key=repr) if isinstance(x, (set, frozenset)) else x)]
    if isinstance(x, (np.integer,)):
        return int(x)
    if isinstance(x, (np.floating,)):
        return float(x)
    if isinstance(x, np.ndarray):
        return x.tolist()
    if isinstance(x, (str, int, float, bool)) or x is None:
        return x
    if isinstance(x, complex):
        return [x.real, x.imag]
    return repr(x)


def load_findings(pid: str) -> tuple[list, list]:
    path = os.path.join(VERIF, "known_findings.json")
    if not os.path.exists(path):
        return [], []
    data = json.load(open(path))
    known = [f for f in data.get("findings", []) if f["property"] == pid and f["status"] == "known"]
    fixed = [f for f in data.get("findings", []) if f["property"] == pid and f["status"] == "fixed"]
    return known, fixed


def group(violations: list) -> dict:
    """fingerprint -> (count, smallest example)"""
    out: dict[str, list] = {}
    for v in violations:
        cur = out.get(v.fingerprint)
        if cur is None:
            out[v.fingerprint] = [1, v]
        else:
            cur[0] += 1
            if (v.size, v.desc) < (cur[1].size, cur[1].desc):
                cur[1] = v
    return out


def write_replay(pid: str, v: Violation) -> str:
    d = os.path.join(VERIF, "replays")
    os.makedirs(d, exist_ok=True)
    h = hashlib.sha1(v.fingerprint.encode()).hexdigest()[:10]
    path = os.path.join(d, f"{pid}-{h}.json")
    with open(path, "w") as f:
        json.dump(
            {"property": pid, "fingerprint": v.fingerprint, "description": v.desc, "payload": jsonable(v.replay)},
            f,
            indent=1,
        )
    return path


def _replay_fps(mod, payload) -> list:
    try:
        return sorted({v.fingerprint for v in mod.replay(payload)})
    except Exception as e:
        # the same rule as during the exploration: an exception raised from inside the library while the oracle handles an object the
        # library accepted is an observation about the library (it reproduces the LIB finding), not a broken replay
        from mc.gridx import raised_in_library

        lib = raised_in_library(e)
        if lib:
            return [f"LIB:raised-inside-the-oracle:{type(e).__name__}:{lib}"]
        raise


def run_replay(pid: str, mod, path: str) -> int:
    data = json.load(open(path))
    fps = _replay_fps(mod, data["payload"])
    if data["fingerprint"] in fps:
        print(f"replay reproduces: {data['fingerprint']}: {data['description']}")
        print(f"VIOLATION property={pid} replay={path}")
        return 1
    print(f"replay does not reproduce {data['fingerprint']} (observed: {fps})")
    return 0


def finish(pid: str, tier: str, seed: int, res: Result, wall: float) -> int:
    known, _fixed = load_findings(pid)
    groups = group(res.violations)
    new, hits = [], []
    for fp, (count, v) in sorted(groups.items()):
        k = next((f for f in known if fnmatch.fnmatchcase(fp, f["fingerprint"])), None)
        if k is not None:
            hits.append((k, fp, count, v))
        else:
            new.append((fp, count, v))
    # vacuity guard
    for name in res.required_activations:
        if not res.activations.get(name):
            print(f"HARNESS-ERROR: {pid}: monitor '{name}' was never exercised (vacuous run)")
            return 2
    cov = dict(res.coverage)
    cov["activations"] = dict(sorted(res.activations.items()))
    cov["known_findings_hit"] = sorted({k["fingerprint"] for k, *_ in hits})
    cov["new_violation_fingerprints"] = [fp for fp, *_ in new][:50]
    ev = {
        "property_id": pid,
        "tier": tier,
        "seed": seed,
        "level": res.level,
        "coverage": jsonable(cov),
        "assumptions": list(res.assumptions),
        "wall_s": round(wall, 2),
        "violations": len(new),
    }
    os.makedirs(os.path.join(VERIF, "evidence"), exist_ok=True)
    with open(os.path.join(VERIF, "evidence", f"{pid}.json"), "w") as f:
        json.dump(ev, f, indent=1, sort_keys=True)
        f.write("\n")
    seen_known = set()
    for k, fp, count, v in hits:
        if k["fingerprint"] in seen_known:
            continue
        seen_known.add(k["fingerprint"])
        n = sum(c for kk, _, c, _ in hits if kk is k)
        print(f"KNOWN-FINDING: property={pid} {k['fingerprint']}: {k['description']} [{n} occurrences this run; e.g. {v.desc}]")
    rc = 0
    import importlib

    mod = importlib.import_module("mc.props." + pid.lower())
    for fp, count, v in new[:25]:
        path = write_replay(pid, v)
        try:
            a, b = _replay_fps(mod, jsonable(v.replay)), _replay_fps(mod, jsonable(v.replay))
        except Exception as e:  # replay itself broken: harness error
            print(f"HARNESS-ERROR: {pid}: replay of {fp} crashed: {e!r}")
            return 2
        if a != b or fp not in a:
            print(f"HARNESS-ERROR: {pid}: replay of {fp} does not reproduce deterministically ({a} / {b})")
            return 2
        print(f"  {fp}: {v.desc} [{count} occurrences]")
        print(f"VIOLATION property={pid} replay={path}")
        rc = 1
    if len(new) > 25:
        print(f"  ... and {len(new) - 25} more violation fingerprints")
    summ = {k: v for k, v in cov.items() if isinstance(v, (int, float, bool, str)) and k != "rule"}
    print(f"{pid} {tier} seed={seed}: {'FAIL' if rc else 'ok'} {summ} wall={wall:.1f}s")
    return rc
