"""Canonical snapshot of a real pulser Sequence (DESIGN §2.1).

`snap(seq)` returns a plain nested structure (dicts / tuples / floats) holding every field that can
influence a later call; `key(snapshot)` is its hashable canonical form.  `selfcheck()` fails closed when
the Sequence / schedule classes grow an attribute the snapshot does not know.
"""
from __future__ import annotations

import hashlib
from dataclasses import dataclass, field
from typing import Any, Optional

import numpy as np

R = 9  # decimals used for hashing only


def _f(x) -> float:
    v = float(x)
    if v != v:
        return float("nan")
    v = round(v, R)
    return 0.0 if v == 0 else v


def digest(arr) -> str:
    a = np.round(np.asarray(arr, dtype=float), R) + 0.0
    return hashlib.sha1(a.tobytes()).hexdigest()[:12]


@dataclass
class PulseInfo:
    amp: np.ndarray
    det: np.ndarray
    phase: float
    post: float
    detuned_delay: bool
    amp_cls: str
    det_cls: str

    def key(self):
        return ("pulse", digest(self.amp), digest(self.det), _f(self.phase), _f(self.post))


@dataclass
class Slot:
    kind: str  # target | delay | pulse
    ti: int
    tf: int
    targets: tuple
    pulse: Optional[PulseInfo] = None
    in_eom: bool = False  # derived: slot starts inside an EOM block
    fall_std: int = 0  # derived: Pulse.fall_time(channel, in_eom_mode=False)
    fall_eom: Optional[int] = None  # derived: Pulse.fall_time(channel, in_eom_mode=True) when the channel has an EOM
    cur_eom: bool = False  # derived: the channel is currently in EOM mode

    @property
    def fall_own(self) -> int:  # with the slot's own EOM membership
        return self.fall_eom if self.in_eom and self.fall_eom is not None else self.fall_std

    @property
    def fall_cur(self) -> int:  # with the channel's current mode
        return self.fall_eom if self.cur_eom and self.fall_eom is not None else self.fall_std

    def key(self):
        return (self.pulse.key() if self.pulse else self.kind, self.ti, self.tf, self.targets)

    def brief(self):
        k = self.kind
        if self.pulse is not None:
            k = "dd" if self.pulse.detuned_delay else "pulse"
            k += f"(ph={self.pulse.phase:.4g})"
        return f"{k}[{self.ti},{self.tf})@{','.join(map(str, self.targets))}"


@dataclass
class ChanSnap:
    name: str
    ch_id: str
    slots: list
    eom_blocks: list  # (rabi, det_on, det_off, ti, tf, beams)
    is_dmm: bool = False
    detmap: Any = None
    waiting: Optional[bool] = None

    def key(self):
        return (
            self.name,
            self.ch_id,
            tuple(s.key() for s in self.slots),
            tuple((_f(b[0]), _f(b[1]), _f(b[2])) + tuple(b[3:]) for b in self.eom_blocks),
            self.is_dmm,
            self.detmap,
            self.waiting,
        )

    @property
    def end(self) -> int:
        return self.slots[-1].tf if self.slots else 0

    def in_eom(self) -> bool:
        return bool(self.eom_blocks) and self.eom_blocks[-1][4] is None


@dataclass
class Snap:
    channels: dict  # name -> ChanSnap (insertion order = declaration order)
    basis_ref: dict  # basis -> {qid: (times, phases, last_used)}
    flags: dict
    calls: tuple = ()
    to_build: tuple = ()

    def key(self, with_calls: bool = False, ordered_channels: bool = True):
        chans = [c.key() for c in self.channels.values()]
        if not ordered_channels:
            chans = sorted(chans, key=repr)
        ref = tuple(
            (b, tuple((str(q), (v[0], tuple(_f(x) for x in v[1]), v[2])) for q, v in sorted(d.items(), key=lambda kv: str(kv[0]))))
            for b, d in sorted(self.basis_ref.items())
        )
        k = (tuple(chans), ref, tuple(sorted(self.flags.items())))
        if with_calls:
            k += (self.calls, self.to_build)
        return k

    def hkey(self, **kw) -> bytes:
        return hashlib.blake2b(repr(self.key(**kw)).encode(), digest_size=16).digest()


def pulse_info(p) -> PulseInfo:
    from pulser.sequence._schedule import _ChannelSchedule

    return PulseInfo(
        amp=np.asarray(p.amplitude.samples.as_array(detach=True), dtype=float),
        det=np.asarray(p.detuning.samples.as_array(detach=True), dtype=float),
        phase=float(p.phase),
        post=float(p.post_phase_shift),
        detuned_delay=_ChannelSchedule.is_detuned_delay(p),
        amp_cls=type(p.amplitude).__name__,
        det_cls=type(p.detuning).__name__,
    )


def _targets(t) -> tuple:
    return tuple(sorted(t, key=str))


FALL_ERRORS: list = []  # filled by chan_snap, read (and cleared) by snap


def chan_snap(name, cs) -> ChanSnap:
    from pulser.pulse import Pulse
    from pulser.sequence._schedule import _DMMSchedule

    slots = []
    end = cs.slots[-1].tf if cs.slots else 0
    ivs = [(b.ti, end if b.tf is None else b.tf) for b in cs.eom_blocks]
    cur_eom = bool(cs.eom_blocks) and cs.eom_blocks[-1].tf is None
    for s in cs.slots:
        own = any(a <= s.ti < b for a, b in ivs)
        if isinstance(s.type, Pulse):
            sl = Slot("pulse", int(s.ti), int(s.tf), _targets(s.targets), pulse_info(s.type), own)
            try:
                sl.fall_std = int(s.type.fall_time(cs.channel_obj, in_eom_mode=False))
                if cs.channel_obj.supports_eom():
                    sl.fall_eom = int(s.type.fall_time(cs.channel_obj, in_eom_mode=True))
            except Exception as e:  # the library cannot even tell the fall time of a pulse it scheduled: kept for the monitors
                FALL_ERRORS.append(f"{name}: fall_time of the scheduled pulse [{s.ti},{s.tf}) raises {type(e).__name__}: {e}"[:200])
            sl.cur_eom = cur_eom
            slots.append(sl)
        else:
            slots.append(Slot(str(s.type), int(s.ti), int(s.tf), _targets(s.targets), None, own))
    blocks = [
        (
            float(b.rabi_freq),
            float(b.detuning_on),
            float(b.detuning_off),
            int(b.ti),
            None if b.tf is None else int(b.tf),
            tuple(sorted(x.name for x in b.switching_beams)),
        )
        for b in cs.eom_blocks
    ]
    c = ChanSnap(name, cs.channel_id, slots, blocks)
    if isinstance(cs, _DMMSchedule):
        c.is_dmm = True
        dm = cs.detuning_map
        c.detmap = (
            tuple(tuple(_f(x) for x in row) for row in np.asarray(dm.sorted_coords)),
            tuple(_f(w) for w in dm.sorted_weights),  # same order as sorted_coords
        )
        c.waiting = bool(cs._waiting_for_first_pulse)
    return c


def canon_arg(a) -> Any:
    """Canonical, hashable spelling of a stored call argument."""
    from pulser.parametrized import Parametrized
    from pulser.pulse import Pulse
    from pulser.waveforms import Waveform

    if isinstance(a, Parametrized):
        return ("param", str(a))
    if isinstance(a, Pulse):
        return pulse_info(a).key()
    if isinstance(a, Waveform):
        return ("wf", digest(a.samples.as_array(detach=True)))
    if isinstance(a, (str, bool, int)) or a is None:
        return a
    if isinstance(a, float):
        return _f(a)
    if isinstance(a, np.ndarray):
        return ("arr", digest(a))
    if isinstance(a, (list, tuple)):
        return tuple(canon_arg(x) for x in a)
    if isinstance(a, (set, frozenset)):
        return ("set",) + tuple(sorted((canon_arg(x) for x in a), key=repr))
    if isinstance(a, dict):
        return tuple((str(k), canon_arg(v)) for k, v in sorted(a.items(), key=lambda kv: str(kv[0])))
    try:
        return ("num", _f(a))
    except Exception:
        pass
    return ("obj", type(a).__name__, _obj_digest(a))


def _obj_digest(a) -> str:
    try:
        import json

        from pulser.json.abstract_repr.serializer import AbstractReprEncoder

        return hashlib.sha1(json.dumps(a, cls=AbstractReprEncoder, sort_keys=True).encode()).hexdigest()[:12]
    except Exception:
        return hashlib.sha1(repr(a).encode()).hexdigest()[:12]


def canon_calls(calls) -> tuple:
    return tuple((c.name, canon_arg(tuple(c.args)), canon_arg(dict(c.kwargs))) for c in calls)


KNOWN_SEQ_ATTRS = {
    "_register", "_device", "_in_xy", "_in_ising_value", "_mag_field", "_calls", "_schedule",
    "_basis_ref", "_qids", "_variables", "_to_build_calls", "_building", "_empty_sequence",
    "_slm_mask_targets", "_slm_mask_dmm", "_param_measurement", "_measurement",
}
KNOWN_CHSCHED_ATTRS = {"channel_id", "channel_obj", "slots", "eom_blocks", "detuning_map", "_waiting_for_first_pulse"}
KNOWN_SCHED_ATTRS = {"max_duration"}
KNOWN_QREF_ATTRS = {"phase", "last_used"}
KNOWN_TRACKER_ATTRS = {"_times", "_phases"}


def snap(seq, with_calls: bool = True) -> Snap:
    # state the snapshot does not know by name (e.g. a cache added later) is still part of the state: kept generically
    extra = tuple(sorted((k, canon_arg(v)) for k, v in vars(seq).items() if k not in KNOWN_SEQ_ATTRS))
    FALL_ERRORS.clear()
    chans = {name: chan_snap(name, cs) for name, cs in seq._schedule.items()}
    fall_errors = tuple(FALL_ERRORS)
    ref = {}
    for basis, d in seq._basis_ref.items():
        ref[basis] = {
            q: (tuple(int(t) for t in r.phase._times), tuple(float(p) for p in r.phase._phases), int(r.last_used))
            for q, r in d.items()
        }
    flags = {
        "in_xy": bool(seq._in_xy),
        "in_ising": bool(seq._in_ising_value),
        "mag": None if seq._mag_field is None else tuple(_f(x) for x in seq._mag_field),
        "building": bool(seq._building),
        "empty": bool(seq._empty_sequence),
        "slm_targets": _targets(seq._slm_mask_targets),
        "slm_dmm": seq._slm_mask_dmm,
        "meas": getattr(seq, "_measurement", None),
        "pmeas": seq._param_measurement,
        "vars": tuple(sorted((n, v.dtype.__name__, v.size) for n, v in seq._variables.items())),
        "maxdur": seq._schedule.max_duration,
        "qids": tuple(map(str, seq._register.qubit_ids)),
        "fall_time_errors": fall_errors,
        "extra": extra + tuple(sorted((f"{name}.{k}", canon_arg(v)) for name, cs in seq._schedule.items()
                                      for k, v in vars(cs).items() if k not in KNOWN_CHSCHED_ATTRS)),
    }
    s = Snap(chans, ref, flags)
    if with_calls:
        s.calls = canon_calls(seq._calls[1:])
        s.to_build = canon_calls(seq._to_build_calls)
    return s


def selfcheck() -> None:
    """Fail closed if the implementation classes carry state the snapshot ignores."""
    import pulser
    from mc.evidence import HarnessError
    from pulser.sequence._basis_ref import _PhaseTracker, _QubitRef
    from pulser.sequence._schedule import _ChannelSchedule, _DMMSchedule, _Schedule

    reg = pulser.Register({"q0": (0, 0), "q1": (0, 10)})
    seq = pulser.Sequence(reg, pulser.MockDevice)
    seq.declare_channel("g", "rydberg_global")
    seq.config_detuning_map(reg.define_detuning_map({"q0": 1.0}), "dmm_0")
    seq.add(pulser.Pulse.ConstantPulse(100, 1, 0, 0), "g")
    seq.measure()
    probs = []
    if set(vars(seq)) - KNOWN_SEQ_ATTRS:
        pass  # kept generically in flags["extra"] (see snap)
    if set(vars(seq._schedule)) - KNOWN_SCHED_ATTRS:
        probs.append(("_Schedule", set(vars(seq._schedule)) - KNOWN_SCHED_ATTRS))
    qr = seq._basis_ref["ground-rydberg"]["q0"]
    if set(vars(qr)) - KNOWN_QREF_ATTRS:
        probs.append(("_QubitRef", set(vars(qr)) - KNOWN_QREF_ATTRS))
    if set(vars(qr.phase)) - KNOWN_TRACKER_ATTRS:
        probs.append(("_PhaseTracker", set(vars(qr.phase)) - KNOWN_TRACKER_ATTRS))
    if probs:
        raise HarnessError(f"implementation state unknown to the snapshot: {probs}")
    snap(seq).hkey(with_calls=True)
