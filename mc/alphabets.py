"""Op alphabets (ordered simplest first) and standard channel prefixes."""
from __future__ import annotations

import math

PI2 = round(math.pi / 2, 12)

# standard prefixes -----------------------------------------------------------------------------
GL = [("declare", "g", "rydberg_global"), ("declare", "l", "raman_local", "q0")]  # different bases
GR = [("declare", "g", "rydberg_global"), ("declare", "r", "rydberg_local", "q0")]  # same basis
GR1 = [("declare", "g", "rydberg_global"), ("declare", "r", "rydberg_local", "q1")]  # local channel starts on the other atom
GG = [("declare", "g", "rydberg_global"), ("declare", "h", "rydberg_global")]  # two globals, one basis
GLD = GL + [("config_dmm", "m2", "dmm_0")]

# pulses ------------------------------------------------------------------------------------------
C52 = ["c", 52, 1.0, 0.0, 0.0]  # clock multiple
C50 = ["c", 50, 1.0, 0.0, 0.0]  # forces clock rounding on clock-4 channels
C16 = ["c", 16, 2.0, 0.0, 0.0]
C52P = ["c", 52, 1.0, 0.0, PI2]  # different phase -> phase jump
C52S = ["c", 52, 1.0, 0.0, 0.0, 1.0]  # post phase shift
B100 = ["b", 100, 1.5, 0.0, 0.0]  # Blackman: short fall time
Z40 = ["c", 40, 0.0, -2.0, 0.0]  # zero amplitude, detuned
R60 = ["r", 60, 1.0, -1.0, 1.0, PI2]
# both waveforms shaped: the amplitude ends smoothly at zero (short tail) while the detuning ends / starts far from zero
BR100 = ["P", ["B", 152, 1.5], ["+", ["C", 100, 0.0], ["C", 52, 10.0]], 0.0]  # flat start, ends high: the detuning decides the fall time
BD100 = ["P", ["B", 152, 1.5], ["+", ["C", 52, 10.0], ["C", 100, 0.0]], 0.0]  # mirror image: long start buffer, short fall time


def timing(g="g", l="l", basis_g="ground-rydberg", basis_l="digital", eom=True, dmm=False, faults=True):
    """The timing alphabet used by C02/C03/C10 (two channels)."""
    A = [
        ("add", C52, g),
        ("add", C52P, g),
        ("add", B100, g, "min-delay"),
        ("add", C50, g, "no-delay"),
        ("add", C52S, g, "wait-for-all"),
        ("add", C52, l),
        ("add", C52P, l, "no-delay"),
        ("add", B100, l, "wait-for-all"),
        ("add", C16, l, "min-delay"),
        ("delay", 16, g),
        ("delay", 50, l),
        ("delay", 30, g),
        ("delay", 100, g, True),
        ("delay", 0, l, True),
        ("target", "q1", l),
        ("target", "q0", l),
        ("target", ["q0", "q1"], l),
        ("align", (g, l), True),
        ("align", (g, l), False),
        ("phase_shift", 1.0, ("q0",), basis_l),
        ("phase_shift", -0.5, ("q0", "q1"), basis_g),
    ]
    if eom:
        A += [
            ("enable_eom", g, 2.0, 0.0, 0.0, False),
            ("enable_eom", g, 2.0, 1.0, -10.0, True),
            # a setpoint whose off-detuning is far from zero (-31.8 rad/us with the default EOM): buffers and idle time inside the block
            # are then zero-amplitude detuned PULSES, not delays (the two setpoints above have an off-detuning of exactly 0)
            ("enable_eom", g, 20.0, 0.0, -40.0, False),
            ("eom_pulse", g, 52, 0.0, 0.0, "min-delay", False),
            ("eom_pulse", g, 50, PI2, 0.0, "no-delay", True),
            ("modify_eom", g, 1.0, 0.0, 5.0, False),
            ("disable_eom", g, False),
            ("disable_eom", g, True),
        ]
    if dmm:
        A += [
            ("add_dmm", ["C", 52, -1.0], "dmm_0"),
            ("add_dmm", ["R", 60, -2.0, 0.0], "dmm_0", "min-delay"),
            ("delay", 16, "dmm_0"),
        ]
    if faults:
        A += [
            ("delay", -4, g),
            # refused delays AT REST (the wait for the fall time precedes the validation of the duration): nothing scheduled may move
            ("delay", -4, g, True),
            ("delay", -4, l, True),
            ("add", C52, "nochan"),
            ("add", C52, g, "bad-protocol"),
        ]
    return A


def fall_tail(g="g", l="l", rise=60, step=1):
    """Pending fall time behind SEVERAL trailing idle slots: idle durations below / at / above the rise time `rise`
    (fall times reach 2 x rise), then everything that consults the pending fall (align / delay at rest, retarget, phase
    jump, EOM buffer).  `step` rounds the durations to the channel clock."""
    def r(x):
        return max(step, int(round(x / step)) * step)

    return [
        ("add", C52, g),
        ("add", B100, g),
        ("add", C52P, g),
        ("add", BR100, g),
        ("add", BD100, g),
        ("delay", r(rise / 2), g),
        ("delay", r(rise), g),
        ("delay", r(rise + rise / 4), g),
        ("delay", r(2 * rise + 8), g),
        ("delay", 0, g, True),
        ("add", C52, l),
        ("add", BR100, l),
        ("delay", r(rise / 2), l),
        ("delay", r(rise), l),
        ("target", "q1", l),
        ("align", (g, l), True),
        ("align", (g, l), False),
        ("enable_eom", g, 2.0, 0.0, 0.0, False),
    ]


# "deep roots": realistic longer programs used as the starting state of an exploration (states far from the empty sequence)
DEEP_GL_EOM = GL + [
    ("add", C52, "g"), ("target", "q1", "l"), ("add", C52P, "l", "min-delay"), ("phase_shift", 1.0, ("q0",), "digital"),
    ("enable_eom", "g", 2.0, 1.0, -10.0, True), ("eom_pulse", "g", 52, 0.0, 0.0, "min-delay", False), ("delay", 30, "g"),
    ("add", B100, "l", "wait-for-all"), ("align", ("g", "l"), True),
]  # ends inside an open EOM block on g, after an at-rest alignment
DEEP_GL_AFTER = DEEP_GL_EOM + [
    ("eom_pulse", "g", 50, PI2, 0.0, "no-delay", True), ("disable_eom", "g", True), ("phase_shift", 1.0, ("q1",), "digital"), ("target", ["q0", "q1"], "l"), ("add", R60, "l"),
    ("add", C50, "g", "no-delay"), ("phase_shift", -0.5, ("q0", "q1"), "ground-rydberg"),
]  # EOM block closed with drift correction, multi-target local channel, pulses with pending fall on both channels


def two_globals(a="g", b="h", basis="ground-rydberg"):
    """Two global channels on one basis (reusable device)."""
    return [
        ("add", C52, a),
        ("add", C52P, a),
        ("add", B100, a, "no-delay"),
        ("add", C52, b),
        ("add", C52P, b, "wait-for-all"),
        ("add", B100, b, "min-delay"),
        ("add", C50, b, "no-delay"),
        ("delay", 16, a),
        ("delay", 100, b, True),
        ("align", (a, b), True),
        ("align", (a, b), False),
        ("phase_shift", 1.0, ("q0",), basis),
        ("phase_shift", -0.5, ("q0", "q1"), basis),
        ("enable_eom", a, 2.0, 0.0, -10.0, False),
        ("eom_pulse", a, 52, 0.0, 0.0, "min-delay", False),
        ("eom_pulse", a, 52, PI2, 0.0, "wait-for-all", False),
        ("delay", 52, a),
        ("disable_eom", a, False),
    ]

LL = [("declare", "r", "rydberg_local", "q0"), ("declare", "l", "raman_local", "q0")]  # two locals
L1 = [("declare", "l", "raman_local", "q0")]
C300 = ["c", 300, 1.0, 0.0, 0.0]


def two_locals(a="r", b="l"):
    return [
        ("add", C52, a),
        ("add", B100, a, "no-delay"),
        ("add", C300, a),
        ("add", C52, b),
        ("add", C16, b, "min-delay"),
        ("add", C52P, b, "wait-for-all"),
        ("target", "q1", a),
        ("target", "q0", a),
        ("target", "q1", b),
        ("target", ["q0", "q1"], b),
        ("delay", 16, b),
        ("align", (a, b), False),
    ]


def retarget(l="l", g="g"):
    """C10 alphabet: phase jumps and retargets on a local channel, one global channel next to it."""
    return [
        ("add", C52, l),
        ("add", C52P, l),
        ("add", C52P, l, "no-delay"),
        ("add", B100, l, "wait-for-all"),
        ("add", C52, g),
        ("delay", 16, l),
        ("delay", 100, l),
        ("target", "q1", l),
        ("target", "q0", l),
        ("target", ["q0", "q1"], l),
        ("align", (g, l), True),
    ]


def eom_phase(g="g"):
    return [
        ("add", C52, g),
        ("add", C52P, g),
        ("enable_eom", g, 2.0, 0.0, 0.0, False),
        ("enable_eom", g, 2.0, 1.0, -10.0, False),
        ("eom_pulse", g, 52, 0.0, 0.0, "min-delay", False),
        ("eom_pulse", g, 52, PI2, 0.0, "min-delay", False),
        ("eom_pulse", g, 16, PI2, 0.0, "no-delay", False),
        ("eom_pulse", g, 52, 0.0, 0.0, "wait-for-all", True),
        ("delay", 16, g),
        ("disable_eom", g, False),
    ]

DG = [("config_dmm", "m2", "dmm_0"), ("declare", "g", "rydberg_global"), ("declare", "r", "rydberg_local", "q0")]  # DMM first
GRL = [("declare", "g", "rydberg_global"), ("declare", "r", "rydberg_local", "q0"), ("declare", "l", "raman_local", "q1")]
C52N = ["c", 52, 1.0, 0.0, 0.3, -1.0]  # programmed phase 0.3, post shift -1.0


def phases(g="g", r="r", l=None, basis="ground-rydberg", eom=True):
    """C07 alphabet: shifts on subsets / bases, pulses with post phase shifts, retargets, several channels on one basis."""
    A = [
        ("phase_shift", 1.0, ("q0",), basis),
        ("phase_shift", -0.5, ("q1",), basis),
        ("phase_shift", 7.0, ("q0", "q1"), basis),
        ("phase_shift", round(2 * math.pi, 12), ("q1",), basis),
        ("phase_shift", 0.0, ("q0",), basis),
        ("add", C52, g),
        ("add", C52S, g),
        ("add", C52N, g, "no-delay"),
        ("add", C52, r),
        ("add", C52S, r),
        ("add", C52N, r, "wait-for-all"),
        ("add", ["A", ["C", 52, 1.0], ["C", 52, 0.4], 0.9], g),  # ArbitraryPhase with a constant phase waveform and a post-phase-shift
        ("add", ["A", ["C", 40, 1.0], ["R", 40, 0.0, 1.0], -0.6], r),  # ... with a phase ramp
        ("target", "q1", r),
        ("target", "q0", r),
        ("target", ["q0", "q1"], r),
    ]
    if l:
        A += [
            ("phase_shift", 1.0, ("q0", "q1"), "digital"),
            ("phase_shift", -2.0, ("q1",), "digital"),
            ("add", C52S, l),
            ("target", "q0", l),
        ]
    if eom:
        A += [
            ("enable_eom", g, 2.0, 0.0, 0.0, False),
            # drift-corrected ENABLING at a setpoint whose off-detuning is far from zero: the reference only drifts from where the buffer
            # starts - by nothing at all on a channel that has not played anything yet
            ("enable_eom", g, 20.0, 0.0, -40.0, True),
            ("eom_pulse", g, 52, 0.5, 1.0, "min-delay", False),
            ("modify_eom", g, 3.0, -1.0, -20.0, True),  # drift-corrected change of setpoint (shift of the reference)
            # drift-corrected pulse with another phase: the phase-jump wait before it is rounded to the clock / minimum duration, and the
            # correction counts up to where the pulse really starts (off-detuning -2.5 rad/us after the modify above)
            ("eom_pulse", g, 50, PI2, 0.0, "min-delay", True),
            ("delay", 20, g),
            ("disable_eom", g, False),
        ]
    return A


def eom_full(g="g", l=None):
    """C15 alphabet: every EOM operation with and without drift correction, on empty and non-empty channels."""
    A = [
        ("add", C52, g),
        ("add", B100, g),
        ("enable_eom", g, 2.0, 0.0, 0.0, False),
        ("enable_eom", g, 2.0, 1.0, -10.0, True),
        ("enable_eom", g, 20.0, 0.0, -40.0, True),  # off-detuning far from zero (the two above: exactly 0 with the default EOM)
        ("eom_pulse", g, 52, 0.0, 0.0, "min-delay", False),
        ("eom_pulse", g, 50, PI2, 0.0, "min-delay", True),
        ("eom_pulse", g, 16, 0.0, 1.0, "no-delay", True),
        ("delay", 16, g),
        ("delay", 100, g, True),
        ("modify_eom", g, 1.0, 0.0, 5.0, False),
        ("modify_eom", g, 3.0, -1.0, -20.0, True),
        ("disable_eom", g, False),
        ("disable_eom", g, True),
    ]
    if l:
        A += [("add", C52, l), ("align", (g, l), True), ("eom_pulse", g, 52, 0.0, 0.0, "wait-for-all", False)]
    return A

R60P = ["r", 60, 1.0, -1.0, 1.0, 0.7]
Z40P = ["c", 40, 0.0, -2.0, PI2]
C40Q = ["c", 40, 2.0, 0.5, 2.5]


def render(g="g", l="l", dmm=None, eom=True, g2=None):
    """C05/C06 alphabet: pulses of distinct shapes/phases/detunings on each channel, retargets, multi-target."""
    A = [
        ("add", C52P, g),
        ("add", R60P, g, "no-delay"),
        ("add", B100, g, "min-delay"),
        ("delay", 16, g),
        ("add", Z40P, g, "no-delay"),  # user-built hold: zero amplitude, constant detuning, phase of its own
    ]
    if l:
        A += [
            ("add", C40Q, l, "no-delay"),
            ("add", R60P, l, "min-delay"),
            ("target", "q1", l),
            ("target", ["q0", "q1"], l),
            ("phase_shift", 1.0, ("q0",), "digital" if l == "l" else "ground-rydberg"),
        ]
    if g2:
        A += [("add", C40Q, g2, "no-delay"), ("add", C52, g2), ("delay", 100, g2)]
    if dmm:
        A += [("add_dmm", ["C", 52, -1.5], dmm), ("add_dmm", ["R", 60, -2.0, 0.0], dmm, "min-delay")]
    if eom:
        A += [
            ("enable_eom", g, 2.0, 0.5, -10.0, False),
            ("eom_pulse", g, 52, 0.5, 0.0, "no-delay", False),
            # automatic waits inside the block: phase jump after the previous EOM pulse / another channel's pulse
            ("eom_pulse", g, 40, 2.0, 0.0, "min-delay", False),
            ("eom_pulse", g, 52, 0.5, 0.0, "wait-for-all", False),
            ("disable_eom", g, False),
        ]
    return A
