"""RefSched — the timing rules of the sequence scheduler re-derived from the docstrings and the property
statements (DESIGN Appendix A), in plain Python.  It never imports pulser scheduling code.

Transition-local use: `predict(pre, op, world)` takes the implementation's *pre* snapshot and returns the
acceptable outcomes of `op` (appended slots per channel and phase-reference updates); `compare` checks the
implementation's post snapshot against them.  Trusted inputs: the fall times of already scheduled pulses
(Slot.fall_std / fall_eom, decided by C14) and the chosen EOM off-detuning (decided by C15b).
"""
from __future__ import annotations

import math
from dataclasses import dataclass, field
from typing import Optional

TWO_PI = 2 * math.pi


def adm(x: int, p: dict) -> int:
    """Least admissible duration >= x: at least min_dur and a multiple of the clock."""
    d = max(int(x), p["min_dur"])
    c = p["clock"]
    return d if d % c == 0 else d + c - d % c


def up(x: int, p: dict) -> int:
    c = p["clock"]
    return x if x % c == 0 else x + c - x % c


@dataclass
class ESlot:
    kind: str  # target | delay | pulse | idle (delay, or detuned delay when det is not None)
    ti: int
    tf: int
    targets: tuple
    phase: Optional[float] = None  # for real pulses
    det: Optional[float] = None  # idle: expected constant detuning (None -> plain delay)
    amp: Optional[float] = None  # EOM pulses: expected constant amplitude
    pdet: Optional[float] = None  # EOM pulses: expected constant detuning

    def brief(self):
        extra = "" if self.phase is None else f"(ph={self.phase:.4g})"
        if self.kind == "idle" and self.det is not None:
            extra = f"(det={self.det:.4g})"
        return f"{self.kind}{extra}[{self.ti},{self.tf})@{','.join(map(str, self.targets))}"


@dataclass
class Pred:
    slots: dict = field(default_factory=dict)  # channel -> [ESlot] appended
    refs: dict = field(default_factory=dict)  # (basis, q) -> (phase, t_shift)  after the op (only changed ones)
    used: dict = field(default_factory=dict)  # (basis, q) -> t_used after the op (only changed ones)
    eom: dict = field(default_factory=dict)  # channel -> expected last block (ti, tf) / closing info
    note: str = ""


def basis_of(ch_id: str) -> str:
    if ch_id.startswith("rydberg") or ch_id.startswith("dmm"):
        return "ground-rydberg"
    if ch_id.startswith("raman"):
        return "digital"
    return "XY"


def _last_pulse(ch, real_only=False):
    for s in reversed(ch.slots):
        if s.kind == "pulse" and not (real_only and s.pulse.detuned_delay):
            return s
    return None


def pending(ch, std_mode: bool = False) -> int:
    """Time still needed after the channel's end for its most recent pulse-like slot to ramp down."""
    s = _last_pulse(ch)
    if s is None:
        return 0
    if not std_mode and not s.in_eom and s.cur_eom and ch.end >= s.tf + s.fall_own:
        # played in standard mode before the EOM block was opened and, by the bandwidth it was played with, already at rest:
        # nothing is pending whatever the EOM's (possibly longer) fall time says.  A slot of a closed block seen from standard
        # mode is judged by the channel's own fall time (what disable_eom_mode's default buffer waits for).
        return 0
    fall = s.fall_std if std_mode else s.fall_cur
    return max(0, s.tf + fall - ch.end)


def _ref(pre, basis, q):
    times, phases, used = pre.basis_ref[basis][q]
    return phases[-1], times[-1], used


class Model:
    def __init__(self, pre, world):
        self.pre = pre
        self.w = world

    def P(self, name):
        return self.w.params(self.pre.channels[name].ch_id)

    # -- building blocks -----------------------------------------------------------------------
    def idle(self, name, t0, dur, targets, force_plain=False):
        ch = self.pre.channels[name]
        det = None
        if ch.in_eom() and not force_plain:
            d = ch.eom_blocks[-1][2]
            if d != 0:
                det = d
        return ESlot("idle", t0, t0 + dur, targets, det=det)

    def fall_wait(self, name, t0, targets, std_mode=False):
        ch = self.pre.channels[name]
        pend = pending(ch, std_mode)
        if pend > 0:
            return [self.idle(name, t0, adm(pend, self.P(name)), targets, force_plain=std_mode)]
        return []

    # -- ops -----------------------------------------------------------------------------------
    def delay(self, op):
        _, d, name = op[:3]
        at_rest = op[3] if len(op) > 3 else False
        ch = self.pre.channels.get(name)
        if ch is None or not ch.slots or ch.is_dmm and ch.waiting:
            return None
        p = self.P(name)
        if d and d < p["min_dur"] or (p["max_dur"] is not None and d > p["max_dur"]):
            return None
        tg = ch.slots[-1].targets
        out = []
        t = ch.end
        if at_rest:
            out += self.fall_wait(name, t, tg)
            t = out[-1].tf if out else t
        if d:
            out.append(self.idle(name, t, adm(d, p), tg))
        return [Pred(slots={name: out})]

    def target(self, op):
        _, q, name = op
        Q = tuple(sorted(list(q) if isinstance(q, (list, tuple, set)) else [q], key=str))
        ch = self.pre.channels.get(name)
        if ch is None or ch.in_eom():
            return None
        p = self.P(name)
        if not p["local"] or len(Q) > (p["max_targets"] or 99):
            return None
        basis = basis_of(ch.ch_id)
        if len({round(_ref(self.pre, basis, x)[0], 9) for x in Q}) != 1:
            return None
        if not ch.slots:
            return [Pred(slots={name: [ESlot("target", -1, 0, Q)]})]
        cur = ch.slots[-1].targets
        if Q == cur:
            # "retargeting to the same atoms inserts nothing"
            return [Pred(slots={name: []}, note="same-target")]
        out = self.fall_wait(name, ch.end, cur)
        t = out[-1].tf if out else ch.end
        last_target_end = next((s.tf for s in reversed(ch.slots) if s.kind == "target"), 0)
        gap = min(max(p["retarget"] - (t - last_target_end), 0), p["retarget"])
        delta = max(gap, p["fixed_rt"] or 0)
        if delta:
            delta = adm(delta, p)
        out.append(ESlot("target", t, t + delta, Q))
        return [Pred(slots={name: out})]

    def _add(self, name, dur, phase, post, protocol, amp=None, pdet=None, drift=None):
        """drift: None or (rate, ti0) for EOM phase-drift correction."""
        pre = self.pre
        ch = pre.channels.get(name)
        if ch is None or not ch.slots or protocol not in ("min-delay", "no-delay", "wait-for-all"):
            return None
        p = self.P(name)
        if dur < p["min_dur"] or (p["max_dur"] is not None and dur > p["max_dur"]):
            return None
        Q = ch.slots[-1].targets
        basis = basis_of(ch.ch_id)
        is_dmm = ch.is_dmm
        if is_dmm:
            ref = 0.0
        else:
            refs = {_ref(pre, basis, q)[0] for q in Q}
            if len(refs) != 1:
                return None
            ref = refs.pop()
        t0 = ch.end
        barrier = max([_ref(pre, basis, q)[1] for q in Q] + [0])
        base = max(t0, barrier)
        variants = []
        for count_dd in (False, True):
            need = base
            if protocol != "no-delay":
                for oname, och in pre.channels.items():
                    if oname == name:
                        continue
                    for s in reversed(och.slots):
                        if s.kind != "pulse" or (s.pulse.detuned_delay and not count_dd):
                            continue
                        if protocol == "wait-for-all" or set(s.targets) & set(Q):
                            need = max(need, s.tf + s.fall_cur)
                            break
            variants.append(need)
        preds = []
        for need in sorted(set(variants)):
            def phase_at(t):
                ph = phase + ref
                if drift is not None:
                    ph -= drift[0] * (t - drift[1]) * 1e-3
                return ph % TWO_PI

            delay = need - t0
            if protocol != "no-delay":
                lp = _last_pulse(ch, real_only=True)
                if lp is not None and lp.pulse.phase != phase_at(need):
                    in_eom = ch.in_eom()
                    buf = max(p["pjt_eff"], 2 * p["rise"] if in_eom else 0)
                    delay = max(delay, lp.tf + lp.fall_cur + buf - t0)
            if delay > 0:
                delay = adm(delay, p)
            ti = t0 + delay
            tf = ti + up(dur, p)
            out = []
            if delay > 0:
                out.append(self.idle(name, t0, delay, Q))
            out.append(ESlot("pulse", ti, tf, Q, phase=phase_at(ti), amp=amp, pdet=pdet))
            pr = Pred(slots={name: out})
            if is_dmm:
                # a DMM pulse counts as a use of its atoms in the ground-rydberg basis (Sequence._add records its end as the atoms' 'last
                # used' time, which is where a later phase shift puts its barrier); it never carries a phase shift of its own
                for q in Q:
                    if basis in pre.basis_ref and q in pre.basis_ref[basis]:
                        pr.used[(basis, q)] = max(_ref(pre, basis, q)[2], tf)
            else:
                shift = post
                if drift is not None:
                    shift -= drift[0] * (ti - drift[1]) * 1e-3
                for q in Q:
                    ph, ts, used = _ref(pre, basis, q)
                    nu = max(used, tf)
                    pr.used[(basis, q)] = nu
                    if shift != 0.0:
                        pr.refs[(basis, q)] = ((ph + shift) % TWO_PI, nu)
            preds.append(pr)
        return preds

    def add(self, op):
        from mc.worlds import make_pulse  # only to read the *programmed* pulse (duration / phase / post)

        _, spec, name = op[:3]
        protocol = op[3] if len(op) > 3 else "min-delay"
        ch = self.pre.channels.get(name)
        if ch is None or ch.in_eom() or ch.is_dmm:
            return None
        from mc.worlds import programmed_duration, programmed_phase, programmed_post

        # duration, phase and post-phase-shift as WRITTEN by the caller (the built Pulse is consulted only for phase waveforms whose
        # first sample the spec does not spell out)
        ph = programmed_phase(spec)
        if ph is None:
            ph = float(make_pulse(spec).phase)
        return self._add(name, programmed_duration(spec), ph % TWO_PI, programmed_post(spec), protocol)

    def add_dmm(self, op):
        from mc.worlds import make_wf

        _, spec, name = op[:3]
        protocol = op[3] if len(op) > 3 else "no-delay"
        ch = self.pre.channels.get(name)
        if ch is None or not ch.is_dmm or ch.waiting:
            return None
        return self._add(name, make_wf(spec).duration, 0.0, 0.0, protocol)

    def _drift_ref(self, ch):
        blk = ch.eom_blocks[-1]
        lp = _last_pulse(ch, real_only=True)
        return (-blk[2], max(blk[3], lp.tf if lp else 0))

    def eom_pulse(self, op):
        _, name, dur, phase, post, protocol, correct = op
        ch = self.pre.channels.get(name)
        if ch is None or not ch.in_eom():
            return None
        blk = ch.eom_blocks[-1]
        drift = self._drift_ref(ch) if correct else None
        return self._add(name, dur, phase, post, protocol, amp=blk[0], pdet=blk[1], drift=drift)

    def _buffer(self, name, t0, targets, det_off):
        p = self.P(name)
        b = adm(p["eom"]["buffer"], p)
        return ESlot("idle", t0, t0 + b, targets, det=det_off if det_off != 0 else None)

    def enable_eom(self, op, det_off):
        _, name, amp, det_on, _opt, correct = op
        ch = self.pre.channels.get(name)
        if ch is None or ch.in_eom() or self.P(name)["eom"] is None or not ch.slots:
            return None
        tg = ch.slots[-1].targets
        out = []
        t = ch.end
        t_ref = t + pending(ch)
        if t > 0:
            out += self.fall_wait(name, t, tg)
            t = out[-1].tf if out else t
            out.append(self._buffer(name, t, tg, det_off))
            t = out[-1].tf
        pr = Pred(slots={name: out}, eom={name: ("open", t, (amp, det_on, det_off))})
        if correct:
            basis = basis_of(ch.ch_id)
            # the phase drifts while the channel sits at the off-detuning, i.e. during the BUFFER (which starts after the fall-time wait
            # has been adjusted to the clock / minimum duration), not from the unadjusted end of the fall time
            b_ti = out[-1].ti if out else t
            drift = -det_off * (t - max(t_ref, b_ti)) * 1e-3
            for q in tg:
                ph, ts, used = _ref(self.pre, basis, q)
                pr.refs[(basis, q)] = ((ph - drift) % TWO_PI, used)
        return [pr]

    def modify_eom(self, op, det_off):
        _, name, amp, det_on, _opt, correct = op
        ch = self.pre.channels.get(name)
        if ch is None or not ch.in_eom():
            return None
        tg = ch.slots[-1].targets
        out = []
        t = ch.end
        old = self._drift_ref(ch)
        if t > 0:
            out.append(self._buffer(name, t, tg, det_off))
        t2 = out[-1].tf if out else t
        pr = Pred(slots={name: out}, eom={name: ("reopen", ch.end, t2, (amp, det_on, det_off))})
        if correct:
            basis = basis_of(ch.ch_id)
            b_ti, b_tf = (out[-1].ti, out[-1].tf) if out else (ch.end, ch.end)  # no buffer: nothing drifts
            drift = old[0] * (b_ti - old[1]) * 1e-3 + (-det_off) * (b_tf - ch.end) * 1e-3
            for q in tg:
                ph, ts, used = _ref(self.pre, basis, q)
                pr.refs[(basis, q)] = ((ph - drift) % TWO_PI, used)
        return [pr]

    def disable_eom(self, op):
        _, name, correct = op
        ch = self.pre.channels.get(name)
        if ch is None or not ch.in_eom():
            return None
        p = self.P(name)
        tg = ch.slots[-1].targets
        t = ch.end
        if p["eom"]["custom_buffer_time"]:
            out = [ESlot("idle", t, t + adm(p["eom"]["buffer"], p), tg)]
        else:
            out = self.fall_wait(name, t, tg, std_mode=True)
        pr = Pred(slots={name: out}, eom={name: ("close", t)})
        if correct:
            basis = basis_of(ch.ch_id)
            rate, ti0 = self._drift_ref(ch)
            drift = rate * (t - ti0) * 1e-3
            for q in tg:
                ph, ts, used = _ref(self.pre, basis, q)
                pr.refs[(basis, q)] = ((ph - drift) % TWO_PI, used)
        return [pr]

    def align(self, op):
        names = tuple(op[1])
        at_rest = True if len(op) < 3 or op[2] is None else op[2]
        pre = self.pre
        if len(set(names)) != len(names) or len(names) < 2 or any(n not in pre.channels for n in names):
            return None
        if any(not pre.channels[n].slots for n in names):
            return None
        ends = {n: pre.channels[n].end + (pending(pre.channels[n]) if at_rest else 0) for n in names}
        T = max(ends.values())
        slots = {}
        for n in names:
            ch = pre.channels[n]
            if ch.is_dmm and ch.waiting:
                return None
            if T > ch.end:
                slots[n] = [self.idle(n, ch.end, adm(T - ch.end, self.P(n)), ch.slots[-1].targets)]
            else:
                slots[n] = []
        return [Pred(slots=slots)]

    def phase_shift(self, op):
        _, phi, targets, basis = op
        pre = self.pre
        if basis not in pre.basis_ref:
            return None
        qs = list(targets) if targets else list(pre.basis_ref[basis])
        if any(q not in pre.basis_ref[basis] for q in qs):
            return None
        pr = Pred()
        for q in qs:
            ph, ts, used = _ref(pre, basis, q)
            pr.refs[(basis, q)] = ((ph + phi) % TWO_PI, used)
        return [pr]


def predict(pre, op, world, post=None):
    """Acceptable outcomes of `op` from state `pre` (None: the model does not cover / would refuse the op).
    `post` is consulted only for the trusted EOM off-detuning choice."""
    m = Model(pre, world)
    k = op[0]
    if pre.flags.get("slm_targets") or not pre.flags.get("building", True) or pre.flags.get("meas"):
        return None
    if k == "add":
        return m.add(op)
    if k == "add_dmm":
        return m.add_dmm(op)
    if k == "delay":
        return m.delay(op)
    if k == "target":
        return m.target(op)
    if k == "align":
        return m.align(op)
    if k == "phase_shift":
        return m.phase_shift(op)
    if k == "eom_pulse":
        return m.eom_pulse(op)
    if k == "disable_eom":
        return m.disable_eom(op)
    if k in ("enable_eom", "modify_eom"):
        if post is None or op[1] not in post.channels or not post.channels[op[1]].eom_blocks:
            return None
        det_off = post.channels[op[1]].eom_blocks[-1][2]
        return m.enable_eom(op, det_off) if k == "enable_eom" else m.modify_eom(op, det_off)
    return None


def _phase_eq(a, b, tol=1e-9):
    d = (a - b) % TWO_PI
    return min(d, TWO_PI - d) <= tol


def _slot_matches(e: ESlot, s) -> Optional[str]:
    if (e.ti, e.tf) != (s.ti, s.tf):
        return f"times: expected {e.brief()}, got {s.brief()}"
    if tuple(e.targets) != tuple(s.targets):
        return f"targets: expected {e.brief()}, got {s.brief()}"
    if e.kind == "target":
        return None if s.kind == "target" else f"kind: expected {e.brief()}, got {s.brief()}"
    if e.kind == "idle":
        if e.det is None:
            return None if s.kind == "delay" else f"kind: expected plain delay {e.brief()}, got {s.brief()}"
        if s.kind != "pulse" or not s.pulse.detuned_delay:
            return f"kind: expected detuned delay {e.brief()}, got {s.brief()}"
        if abs(float(s.pulse.det[0]) - e.det) > 1e-9 or (s.pulse.det != s.pulse.det[0]).any() or s.pulse.amp.any():
            return f"idle detuning: expected {e.det}, got {s.pulse.det[0]}"
        return None
    if e.kind == "pulse":
        if s.kind != "pulse":
            return f"kind: expected {e.brief()}, got {s.brief()}"
        if e.phase is not None and not _phase_eq(e.phase, s.pulse.phase):
            return f"phase: expected {e.phase:.9f}, got {s.pulse.phase:.9f}"
        if e.amp is not None and ((abs(s.pulse.amp - e.amp) > 1e-9).any() or (abs(s.pulse.det - e.pdet) > 1e-9).any()):
            return f"EOM pulse not square at setpoint ({e.amp},{e.pdet})"
        return None
    return f"unknown expected kind {e.kind}"


def compare(pred: Pred, pre, post) -> list:
    """Mismatches between one acceptable outcome and the implementation's post snapshot."""
    out = []
    for name, ch in post.channels.items():
        n0 = len(pre.channels[name].slots) if name in pre.channels else 0
        new = ch.slots[n0:]
        exp = pred.slots.get(name, [])
        if len(new) != len(exp):
            out.append(("slots", f"{name}: expected +{[e.brief() for e in exp]}, got +{[s.brief() for s in new]}"))
            continue
        for e, s in zip(exp, new):
            why = _slot_matches(e, s)
            if why:
                out.append(("slot", f"{name}: {why}"))
    for basis, d in post.basis_ref.items():
        for q, (times, phases, used) in d.items():
            ph0, ts0, used0 = _ref(pre, basis, q) if basis in pre.basis_ref and q in pre.basis_ref[basis] else (0.0, 0, 0)
            eph, ets = pred.refs.get((basis, q), (ph0, ts0))
            eused = pred.used.get((basis, q), used0)
            if not _phase_eq(eph, phases[-1]):
                out.append(("ref-phase", f"{basis}/{q}: expected {eph:.9f}, got {phases[-1]:.9f}"))
            if (basis, q) in pred.refs and ets != times[-1]:
                out.append(("ref-time", f"{basis}/{q}: shift expected at {ets}, got {times[-1]}"))
            if eused != used:
                out.append(("ref-used", f"{basis}/{q}: last used expected {eused}, got {used}"))
    for name, info in pred.eom.items():
        blocks = post.channels[name].eom_blocks
        if info[0] == "open":
            b = blocks[-1]
            if b[3] != info[1] or b[4] is not None or any(abs(x - y) > 1e-9 for x, y in zip(b[:3], info[2])):
                out.append(("eom-block", f"{name}: expected open block at {info[1]} {info[2]}, got {b}"))
        elif info[0] == "close":
            if blocks[-1][4] != info[1]:
                out.append(("eom-block", f"{name}: expected block closed at {info[1]}, got {blocks[-1]}"))
        elif info[0] == "reopen":
            if len(blocks) < 2 or blocks[-2][4] != info[1] or blocks[-1][3] != info[2] or blocks[-1][4] is not None:
                out.append(("eom-block", f"{name}: expected close at {info[1]} and reopen at {info[2]}, got {blocks[-2:]}"))
    return out


def conformance(ctx):
    """SeqX monitor: RefSched equality on one transition. Yields (fingerprint-suffix, description)."""
    if ctx.exc is not None:
        return []
    preds = predict(ctx.pre, ctx.op, ctx.world, ctx.post)
    if preds is None:
        ctx.act["refsched_unmodelled"] += 1
        return []
    ctx.act["refsched_compared"] += 1
    ctx.act[f"refsched_compared:{ctx.op[0]}"] += 1
    best = None
    for pr in preds:
        mm = compare(pr, ctx.pre, ctx.post)
        if not mm:
            return []
        if best is None or len(mm) < len(best):
            best = mm
    kinds = "+".join(sorted({k for k, _ in best}))
    return [(f"{ctx.op[0]}:{kinds}", "; ".join(d for _, d in best[:3]))]
