"""Model-free monitors evaluated on every explored transition (pre, op, post)."""
from __future__ import annotations

import re

import numpy as np

from mc.worlds import op_channels


def chan_params(ctx, name):
    co = ctx.seq._schedule[name].channel_obj
    return co


def _new_slots(ctx, name):
    pre = ctx.pre.channels.get(name)
    post = ctx.post.channels[name]
    n = len(pre.slots) if pre else 0
    return post.slots[n:]


def tiling(ctx):
    """C02: per channel the slots tile [0, end) without gap/overlap, clock-aligned, pulse length exact,
    inserted delays / non-zero retargets >= min_duration."""
    out = []
    k = ctx.op[0]
    for name, ch in ctx.post.channels.items():
        co = chan_params(ctx, name)
        clock, mind = co.clock_period, co.min_duration
        ctx.act["tiling_channels"] += 1
        for i, s in enumerate(ch.slots):
            if i == 0:
                if not (s.kind == "target" and s.ti == -1 and s.tf == 0):
                    out.append((f"C02:first-slot-not-initial-target:{k}", f"{name}: first slot {s.brief()}"))
                continue
            prev = ch.slots[i - 1]
            if s.ti != prev.tf:
                out.append((f"C02:gap-or-overlap:{k}", f"{name}: {prev.brief()} then {s.brief()}"))
            if s.tf < s.ti:
                out.append((f"C02:negative-slot:{k}", f"{name}: {s.brief()}"))
            if s.ti < 0 or s.ti % clock or s.tf % clock:
                out.append((f"C02:not-clock-aligned:{k}:{s.kind}", f"{name}: {s.brief()} clock={clock}"))
            if s.kind == "pulse":
                if not (s.tf - s.ti == len(s.pulse.amp) == len(s.pulse.det)):
                    out.append((f"C02:pulse-length:{k}", f"{name}: {s.brief()} has {len(s.pulse.amp)} samples"))
                if s.pulse.detuned_delay and s.tf - s.ti < mind:
                    out.append((f"C02:short-detuned-delay:{k}", f"{name}: {s.brief()} < min_duration {mind}"))
            elif s.kind == "delay":
                if s.tf - s.ti < mind:
                    out.append((f"C02:short-delay:{k}", f"{name}: {s.brief()} < min_duration {mind}"))
            elif s.kind == "target":
                if 0 < s.tf - s.ti < mind:
                    out.append((f"C02:short-retarget:{k}", f"{name}: {s.brief()} < min_duration {mind}"))
            else:
                out.append((f"C02:unknown-slot-kind:{k}", f"{name}: {s.kind}"))
    return out


def touched_channels(ctx) -> set:
    """Channels the op is allowed to append to."""
    allowed = set(op_channels(ctx.op))
    allowed |= set(ctx.post.channels) - set(ctx.pre.channels)
    slm = ctx.pre.flags.get("slm_dmm") or ctx.post.flags.get("slm_dmm")
    if slm and ctx.op[0] in ("add", "eom_pulse", "slm", "declare", "config_dmm"):
        allowed.add(slm)
    return allowed


def prefix_stable(ctx):
    """C02: instruction times never move once scheduled; channels not named by the op are unchanged;
    a refused call is judged by C09, not here."""
    out = []
    k = ctx.op[0]
    allowed = touched_channels(ctx)
    for name, pre in ctx.pre.channels.items():
        post = ctx.post.channels.get(name)
        if post is None:
            out.append((f"C02:channel-vanished:{k}", name))
            continue
        ctx.act["prefix_checked"] += 1
        pk = [s.key() for s in pre.slots]
        qk = [s.key() for s in post.slots]
        if qk[: len(pk)] != pk:
            out.append((f"C02:scheduled-slot-moved:{k}", f"{name}: {[s.brief() for s in pre.slots]} -> {[s.brief() for s in post.slots]}"))
        elif len(qk) != len(pk) and name not in allowed and ctx.exc is None:
            out.append((f"C02:untouched-channel-changed:{k}", f"{name}: +{[s.brief() for s in post.slots[len(pk):]]}"))
        # closed EOM blocks never move either
        pb, qb = pre.eom_blocks, post.eom_blocks
        for a, b in zip(pb, qb):
            if a[4] is not None and a != b:
                out.append((f"C02:eom-block-moved:{k}", f"{name}: {a} -> {b}"))
            if a[3] != b[3]:
                out.append((f"C02:eom-block-start-moved:{k}", f"{name}: {a} -> {b}"))
    return out


def pending_fall(ch) -> int:
    """Independent: end of the channel counting the fall time of its most recent pulse-like slot,
    evaluated with the channel's current mode."""
    end = ch.end
    for s in reversed(ch.slots):
        if s.kind == "pulse":
            if not s.in_eom and s.cur_eom and end >= s.tf + s.fall_own:
                # a standard pulse seen from inside an EOM block: already at rest by the bandwidth it was played with.  (The reverse - idle
                # time of a CLOSED block seen from standard mode - is judged by the channel's own fall time, as the default buffer of
                # disable_eom_mode is; a device's shorter custom buffer leaves that fall time pending.)
                return end
            return max(end, s.tf + s.fall_cur)
    return end


def durations(ctx):
    """C02: reported durations = end of last instruction (+ pending fall time), sequence = max over channels."""
    out = []
    if not ctx.post.flags["building"]:
        return out
    seq = ctx.seq
    k = ctx.op[0]
    ends = []
    for name, ch in ctx.post.channels.items():
        if not ch.slots:
            continue
        ctx.act["duration_checked"] += 1
        d = seq.get_duration(name)
        if d != ch.end:
            out.append((f"C02:channel-duration:{k}", f"{name}: get_duration={d}, last tf={ch.end}"))
        df = seq.get_duration(name, include_fall_time=True)
        exp = pending_fall(ch)
        if df != exp:
            out.append((f"C02:channel-duration-with-fall:{k}", f"{name}: reported {df}, expected {exp}"))
        # lower bound from the scheduled samples alone (documented filter): standard-mode pulses only
        last = next((s for s in reversed(ch.slots) if s.kind == "pulse"), None)
        bw = ctx.world.params(ch.ch_id)["bw"]
        if last is not None and bw and not last.in_eom and not last.cur_eom and not last.pulse.detuned_delay:
            ctx.act["duration_with_fall_physical_bound"] += 1
            lo = last.tf + physical_fall(last, bw)
            if df < lo:
                out.append((f"C02:duration-with-fall-time-ends-before-the-output:{k}", f"{name}: reported {df}, modulated output of {last.brief()} present until {lo}"))
        ends.append((ch.end, exp))
    if ends and len(ends) == len(ctx.post.channels):
        if seq.get_duration() != max(e for e, _ in ends):
            out.append((f"C02:sequence-duration:{k}", f"{seq.get_duration()} != {max(e for e, _ in ends)}"))
        if seq.get_duration(include_fall_time=True) != max(f for _, f in ends):
            out.append((f"C02:sequence-duration-with-fall:{k}", f"{seq.get_duration(include_fall_time=True)} != {max(f for _, f in ends)}"))
    return out


_T = re.compile(r"^t: (\d+)->(\d+) \| (.*)$")


def views(ctx):
    """C02/C06: the schedule, str(seq) and sample(seq) describe the same timeline."""
    out = []
    if not ctx.post.flags["building"] or ctx.exc is not None:
        return out
    seq = ctx.seq
    k = ctx.op[0]
    if all(not c.slots for c in ctx.post.channels.values()):
        return out
    # view 2: str(seq)
    try:
        txt = str(seq)
    except Exception as e:
        return [(f"C02:str-raises:{k}", repr(e))]
    cur = None
    parsed: dict = {}
    for line in txt.splitlines():
        if line.startswith("Channel: "):
            cur = line[len("Channel: "):]
            parsed[cur] = []
        elif cur is not None:
            m = _T.match(line)
            if m:
                parsed[cur].append((int(m.group(1)), int(m.group(2))))
    for name, ch in ctx.post.channels.items():
        ctx.act["views_checked"] += 1
        exp = [(s.ti, s.tf) for s in ch.slots[1:]]
        if parsed.get(name) != exp:
            out.append((f"C02:str-view-differs:{k}", f"{name}: str shows {parsed.get(name)}, schedule {exp}"))
    # view 3: sample(seq)
    try:
        from pulser.sampler import sample

        ss = sample(seq)
    except Exception as e:
        return out + [(f"C02:sample-raises:{k}:{type(e).__name__}", repr(e))]
    if list(ss.channel_samples) != list(ctx.post.channels):
        return out + [(f"C02:sampled-channels-differ-from-declared:{k}", f"declared {list(ctx.post.channels)}, sampled {list(ss.channel_samples)}")]
    for name, ch in ctx.post.channels.items():
        cs = ss.channel_samples[name]
        if not (len(cs.amp) == len(cs.det) == len(cs.phase) == ch.end):
            out.append((f"C02:sample-length:{k}", f"{name}: {len(cs.amp)} vs {ch.end}"))
        exp = [(s.ti, tuple(s.targets)) for s in ch.slots if s.kind == "pulse"]
        got = [(s.ti, tuple(sorted(s.targets, key=str))) for s in cs.slots]
        if exp != got:
            out.append((f"C02:sample-slots-differ:{k}", f"{name}: {got} vs {exp}"))
    if ss.max_duration != max(c.end for c in ctx.post.channels.values()):
        out.append((f"C02:sample-duration:{k}", f"{ss.max_duration}"))
    return out


# ---- an independent lower bound for the fall time of a scheduled pulse -----------------------------------------------
_PF_CACHE: dict = {}


def _ref_tail_profile(x, bw, rise):
    """max |y(t)| over t >= T for the non-circular Gaussian low-pass y of x (documented filter), T counted from the end of
    the input in TRUE time; returned as an array indexed by T + rise (so index 0 is one rise time before the end)."""
    import math

    import numpy as np

    fc = bw * 1e-3 / math.sqrt(math.log(2))
    half = int(6 / (math.pi * fc)) + 2
    tt = np.arange(-half, half + 1)
    h = fc * math.sqrt(math.pi) * np.exp(-((math.pi * fc * tt) ** 2))
    h = h / h.sum()
    pad = 6 * rise + 50
    xp = np.concatenate([np.zeros(pad + half), x, np.zeros(pad + half)])
    y = np.abs(np.convolve(xp, h, mode="same"))[half: len(xp) - half]  # y[i] at true time i - pad
    tail = y[pad + len(x) - rise:]
    return np.maximum.accumulate(tail[::-1])[::-1]


def physical_fall(slot, bw: float) -> int:
    """Least F such that, F ns after the end of the slot's pulse (sequence time: the modulated output is taken to lag the
    input by one rise time), neither the amplitude nor the detuning output of the documented Gaussian filter exceeds
    max(0.01, 0.6 % of the waveform's peak).  Computed from the scheduled samples only - the library's Pulse.fall_time,
    modulation_buffers and modulate are not consulted.  The bound is looser than the library's own trimming criterion, so
    on a correct implementation Pulse.fall_time >= physical_fall (decided for all waveform shapes of C14's grid)."""
    import numpy as np

    if not bw or slot.pulse is None:
        return 0
    rise = int(0.48 / bw * 1e3)
    F = 0
    for x in (slot.pulse.amp, slot.pulse.det):
        key = (x.tobytes(), bw)
        if key not in _PF_CACHE:
            peak = float(np.max(np.abs(x))) if len(x) else 0.0
            if peak == 0.0:
                _PF_CACHE[key] = 0
            else:
                prof = _ref_tail_profile(x, bw, rise)
                bound = max(0.01, 0.006 * peak)
                over = np.nonzero(prof >= bound)[0]
                _PF_CACHE[key] = int(over[-1]) + 1 if len(over) else 0  # first index at which the remaining tail is below the bound
            if len(_PF_CACHE) > 4000:
                _PF_CACHE.clear()
        F = max(F, _PF_CACHE.get(key, 0))
    return F
