"""Worlds (device + register + declared channels) and the op language the explorers speak.

Everything is described by JSON-able specs so that a replay file can rebuild the exact case:
  world spec -> `World(spec)`; op -> `apply(seq, op, world)`; pulse spec -> `make_pulse(spec)`.
"""
from __future__ import annotations

import copy
from typing import Any

import numpy as np

BASE = dict(
    clock=1, min_dur=1, bw=None, pjt=None, retarget=0, fixed_rt=0, max_dur=None, max_amp=None, max_det=None,
    min_avg_amp=0, max_targets=2,
)

EOM_DEFAULT = dict(
    mod_bandwidth=40, limiting_beam="RED", max_limiting_amp=188.5, intermediate_detuning=2827.4,
    controlled_beams=["BLUE"], multiple_beam_control=True, custom_buffer_time=None,
    blue_shift_coeff=1.0, red_shift_coeff=1.0,
)

# named corner configurations (DESIGN §2.3)
CORNERS = {
    "unit": dict(),
    "unit8": dict(bw=8, eom={}),
    "real": dict(clock=4, min_dur=16, bw=8, eom={}),
    "awk": dict(clock=4, min_dur=16, bw=30, pjt=42, retarget=220, fixed_rt=30, eom=dict(custom_buffer_time=40)),
    "mixed": dict(clock=4, min_dur=16, bw=8, eom={}, over={"raman": dict(bw=30, clock=2, min_dur=8)}),
}


def make_eom(cfg: dict):
    from pulser.channels.eom import RydbergBeam, RydbergEOM

    c = dict(EOM_DEFAULT)
    c.update(cfg or {})
    return RydbergEOM(
        mod_bandwidth=c["mod_bandwidth"],
        limiting_beam=RydbergBeam[c["limiting_beam"]],
        max_limiting_amp=c["max_limiting_amp"],
        intermediate_detuning=c["intermediate_detuning"],
        controlled_beams=tuple(RydbergBeam[b] for b in c["controlled_beams"]),
        multiple_beam_control=c["multiple_beam_control"],
        custom_buffer_time=c["custom_buffer_time"],
        blue_shift_coeff=c["blue_shift_coeff"],
        red_shift_coeff=c["red_shift_coeff"],
    )


def _chan_kwargs(p: dict, local: bool) -> dict:
    kw = dict(
        clock_period=p["clock"], min_duration=p["min_dur"], max_duration=p["max_dur"],
        mod_bandwidth=p["bw"], custom_phase_jump_time=p["pjt"], min_avg_amp=p["min_avg_amp"],
    )
    if local:
        kw.update(min_retarget_interval=p["retarget"], fixed_retarget_t=p["fixed_rt"], max_targets=p["max_targets"])
    return kw


def make_device(spec: dict):
    """A VirtualDevice with rydberg/raman global+local, a microwave channel and two DMMs."""
    from pulser.channels import DMM, Microwave, Raman, Rydberg
    from pulser.devices import VirtualDevice

    base = dict(BASE)
    base.update({k: v for k, v in spec.items() if k in BASE})
    over = spec.get("over", {})

    def P(fam, local=None):
        p = dict(base)
        p.update(over.get(fam, {}))
        if local is not None:  # per-channel overrides, e.g. over={"rydberg_local": {...}}
            p.update(over.get(f"{fam}_{'local' if local else 'global'}", {}))
        return p

    eom = spec.get("eom")
    ryd_kw = _chan_kwargs(P("rydberg", False), False)
    if eom is not None and P("rydberg", False)["bw"]:
        ryd_kw["eom_config"] = make_eom(eom)
    chans = (
        Rydberg.Global(P("rydberg", False)["max_det"], P("rydberg", False)["max_amp"], **ryd_kw),
        Rydberg.Local(P("rydberg", True)["max_det"], P("rydberg", True)["max_amp"], **_chan_kwargs(P("rydberg", True), True)),
        Raman.Global(P("raman", False)["max_det"], P("raman", False)["max_amp"], **_chan_kwargs(P("raman", False), False)),
        Raman.Local(P("raman", True)["max_det"], P("raman", True)["max_amp"], **_chan_kwargs(P("raman", True), True)),
        Microwave.Global(P("mw")["max_det"], P("mw")["max_amp"], **_chan_kwargs(P("mw"), False)),
    )
    pd = P("dmm")
    dmm_kw = dict(
        clock_period=pd["clock"], min_duration=pd["min_dur"], max_duration=pd["max_dur"], mod_bandwidth=pd["bw"],
        bottom_detuning=spec.get("bottom_det"), total_bottom_detuning=spec.get("total_bottom_det"),
    )
    return VirtualDevice(
        name="W_" + str(spec.get("name", "x")),
        dimensions=3,
        rydberg_level=spec.get("rydberg_level", 60),
        max_atom_num=None,
        max_radial_distance=None,
        min_atom_distance=0.0,
        interaction_coeff_xy=3700.0,
        supports_slm_mask=True,
        max_sequence_duration=spec.get("max_seq"),
        max_layout_filling=spec.get("max_layout_filling", 1.0),
        reusable_channels=spec.get("reusable", True),
        channel_objects=chans,
        dmm_objects=(DMM(**dmm_kw), DMM(**dmm_kw)),
    )


REGISTERS = {
    2: {"q0": (0.0, 0.0), "q1": (8.0, 0.0)},
    3: {"q0": (0.0, 0.0), "q1": (8.0, 0.0), "q2": (3.0, 9.0)},
}


def make_register(n: int = 2):
    from pulser import Register

    return Register(dict(REGISTERS[n]))


def make_wf(spec):
    """Waveform spec: ["C",dur,val] ["R",dur,a,b] ["B",dur,area] ["K",dur,area,beta] ["I",dur,[vals]] ["X",[samples]]
    ["+", wf, wf, ...]"""
    from pulser import waveforms as W

    k = spec[0]
    if k == "C":
        return W.ConstantWaveform(spec[1], spec[2])
    if k == "R":
        return W.RampWaveform(spec[1], spec[2], spec[3])
    if k == "B":
        return W.BlackmanWaveform(spec[1], spec[2])
    if k == "K":
        return W.KaiserWaveform(spec[1], spec[2], *spec[3:4])
    if k == "I":
        return W.InterpolatedWaveform(spec[1], list(spec[2]), **(spec[3] if len(spec) > 3 else {}))
    if k == "X":
        return W.CustomWaveform(list(spec[1]))
    if k == "+":
        return W.CompositeWaveform(*[make_wf(s) for s in spec[1:]])
    raise ValueError(f"unknown waveform spec {spec}")


def make_pulse(spec):
    """Pulse spec: ["P", amp_wf_spec, det_wf_spec, phase, post]  or short forms
    ["c", dur, amp, det, phase, post]  constant pulse
    ["b", dur, area, det, phase, post] Blackman amplitude, constant detuning
    ["r", dur, amp, det0, det1, phase, post] constant amplitude, ramp detuning
    """
    from pulser import Pulse

    k = spec[0]
    if k == "c":
        return Pulse.ConstantPulse(spec[1], spec[2], spec[3], spec[4], post_phase_shift=spec[5] if len(spec) > 5 else 0.0)
    if k == "b":
        return Pulse.ConstantDetuning(make_wf(["B", spec[1], spec[2]]), spec[3], spec[4], post_phase_shift=spec[5] if len(spec) > 5 else 0.0)
    if k == "r":
        return Pulse.ConstantAmplitude(spec[2], make_wf(["R", spec[1], spec[3], spec[4]]), spec[5], post_phase_shift=spec[6] if len(spec) > 6 else 0.0)
    if k == "P":
        return Pulse(make_wf(spec[1]), make_wf(spec[2]), spec[3], post_phase_shift=spec[4] if len(spec) > 4 else 0.0)
    if k == "A":  # ["A", amp_wf_spec, phase_wf_spec, post]  arbitrary phase waveform
        return Pulse.ArbitraryPhase(make_wf(spec[1]), make_wf(spec[2]), post_phase_shift=spec[3] if len(spec) > 3 else 0.0)
    raise ValueError(f"unknown pulse spec {spec}")


def programmed_post(spec) -> float:
    """The post-phase-shift written in a pulse spec (what the user programmed, not what the built Pulse reports)."""
    k = spec[0]
    i = {"c": 5, "b": 5, "r": 6, "P": 4, "A": 3}[k]
    return float(spec[i]) if len(spec) > i else 0.0


def wf_duration(wspec) -> int:
    """Duration written in a waveform spec (no library object involved)."""
    k = wspec[0]
    if k == "+":
        return sum(wf_duration(x) for x in wspec[1:])
    if k == "X":
        return len(wspec[1])
    return int(wspec[1])


def programmed_duration(spec) -> int:
    """Duration written in a pulse spec."""
    k = spec[0]
    return int(spec[1]) if k in ("c", "b", "r") else wf_duration(spec[1])


def programmed_phase(spec):
    """Phase written in a pulse spec (None when it has to be read from the built pulse: arbitrary phase waveforms other
    than constant)."""
    k = spec[0]
    if k in ("c", "b"):
        return float(spec[4])
    if k == "r":
        return float(spec[5])
    if k == "P":
        return float(spec[3])
    if k == "A" and spec[2][0] == "C":
        return float(spec[2][2])  # a constant phase waveform (a ramp's offset depends on how the detuning is discretised)
    return None


class World:
    def __init__(self, spec: dict):
        self.spec = copy.deepcopy(spec)
        self.alias = {}
        self.passed = []
        self.name = spec.get("name", "w")
        self.device = make_device(spec)
        self.nq = spec.get("qubits", 2)
        if spec.get("coords"):
            # explicit register: ordered {qid: coords}; 3 coordinates -> Register3D
            from pulser import Register, Register3D

            coords = {k: tuple(float(x) for x in v) for k, v in spec["coords"].items()}
            cls = Register3D if len(next(iter(coords.values()))) == 3 else Register
            self.register = cls(coords)
            self.qids = list(coords)
            self.nq = len(coords)
        else:
            # "qid_alias": {"q0": 2, ...} renames the qubits (ops keep using the q<i> names; see xlate)
            self.alias = dict(spec.get("qid_alias") or {})
            assert not any(v in self.alias for v in self.alias.values()), "alias values must not be alias keys"
            from pulser import Register

            self.register = Register({self.alias.get(k, k): v for k, v in REGISTERS[self.nq].items()})
            self.qids = [self.alias.get(k, k) for k in REGISTERS[self.nq]]
        self.prefix = [tuple(o) if not isinstance(o, tuple) else o for o in spec.get("prefix", [])]
        self.detmaps = {
            "m1": {self.q("q0"): 1.0},
            "m2": {self.q("q0"): 0.25, self.q("q1"): 0.75},
        }

    def q(self, x):
        """Actual qubit id(s) for the op-language name(s) `x`."""
        if isinstance(x, (list, tuple)):
            return type(x)(self.alias.get(i, i) if isinstance(i, str) else i for i in x)
        return self.alias.get(x, x) if isinstance(x, str) else x

    def xlate(self, op):
        """The op with qubit names replaced by the world's actual ids (identity without `qid_alias`)."""
        if not self.alias:
            return op
        k = op[0]
        op = list(op)
        if k == "declare" and len(op) > 3:
            op[3] = self.q(op[3])
        elif k in ("target", "slm"):
            op[1] = self.q(op[1])
        elif k == "phase_shift":
            op[2] = self.q(op[2])
        return tuple(op)

    def detmap(self, key):
        j = self.spec.get("detmap_jitter")
        if j:
            # the map is built from its OWN coordinate array: the atoms' positions displaced by less than the rounding precision
            # (a negative jitter turns a zero coordinate into -0.0 after rounding)
            from pulser.register.weight_maps import DetuningMap

            import numpy as np

            qs = list(self.detmaps[key])
            pos = [np.asarray(self.register.qubits[q].as_array() if hasattr(self.register.qubits[q], "as_array") else self.register.qubits[q],
                              dtype=float) + j for q in qs]
            return DetuningMap(pos, [self.detmaps[key][q] for q in qs])
        return self.register.define_detuning_map(dict(self.detmaps[key]))

    def fresh(self, apply_prefix: bool = True):
        from pulser import Sequence

        seq = Sequence(self.register, self.device)
        self.passed = []  # list objects handed to the sequence since it was created
        if apply_prefix:
            for op in self.prefix:
                apply(seq, op, self)
        return seq

    def build(self, history):
        """Fresh real Sequence with the prefix and `history` replayed (ops that raise are skipped)."""
        seq = self.fresh()
        for op in history:
            try:
                apply(seq, op, self)
            except Exception:
                pass
        return seq

    def params(self, ch_id: str) -> dict:
        """Timing parameters of a device channel id, read from the spec (not from channel objects)."""
        fam = "dmm" if ch_id.startswith("dmm") else ("mw" if ch_id.startswith("mw") else ch_id.split("_")[0])
        p = dict(BASE)
        p.update({k: v for k, v in self.spec.items() if k in BASE})
        p.update(self.spec.get("over", {}).get(fam, {}))
        p.update(self.spec.get("over", {}).get(ch_id, {}))
        p["local"] = ch_id.endswith("_local")
        p["rise"] = int(0.48 / p["bw"] * 1e3) if p["bw"] else 0
        p["pjt_eff"] = p["pjt"] if p["pjt"] is not None else 2 * p["rise"]
        p["eom"] = None
        if ch_id == "rydberg_global" and self.spec.get("eom") is not None and p["bw"]:
            e = dict(EOM_DEFAULT)
            e.update(self.spec["eom"])
            e["rise"] = int(0.48 / e["mod_bandwidth"] * 1e3)
            e["buffer"] = e["custom_buffer_time"] or 2 * p["rise"]
            p["eom"] = e
        return p

    def chan_obj(self, seq, name):
        return seq._schedule[name].channel_obj


def _tl(x, world=None):
    """A list argument as the caller would own it; remembered in world.passed so that a harness can edit it afterwards."""
    if isinstance(x, (list, tuple)):
        x = list(x)
        if world is not None and world.spec.get("container") == "keys":
            return dict.fromkeys(x).keys()  # a valid Collection of ids that copy.copy() cannot duplicate
        if world is not None and world.spec.get("container") == "set":
            x = set(x)  # the caller's own set, which it goes on editing
        if world is not None:
            world.passed.append(x)
    return x


def apply(seq, op, world: World):
    """Execute one op of the op language on a real Sequence. Returns the call's return value."""
    op = world.xlate(op)
    k = op[0]
    if k == "declare":
        it = _tl(op[3], world) if len(op) > 3 else None
        return seq.declare_channel(op[1], op[2], initial_target=it)
    if k == "add":
        return seq.add(make_pulse(op[1]), op[2], protocol=op[3] if len(op) > 3 else "min-delay")
    if k == "delay":
        return seq.delay(op[1], op[2], at_rest=op[3] if len(op) > 3 else False)
    if k == "target":
        return seq.target(_tl(op[1], world), op[2])
    if k == "target_kw":  # the same call with every argument by keyword (containers included)
        return seq.target(qubits=_tl(op[1], world), channel=op[2])
    if k == "slm_kw":
        return seq.config_slm_mask(qubits=_tl(op[1], world), **({"dmm_id": op[2]} if len(op) > 2 else {}))
    if k == "target_index":
        return seq.target_index(_tl(op[1], world), op[2])
    if k == "align":
        if len(op) > 2 and op[2] is not None:
            return seq.align(*op[1], at_rest=op[2])
        return seq.align(*op[1])
    if k == "phase_shift":
        return seq.phase_shift(op[1], *op[2], basis=op[3])
    if k == "phase_shift_index":
        return seq.phase_shift_index(op[1], *op[2], basis=op[3])
    if k == "enable_eom":
        return seq.enable_eom_mode(op[1], op[2], op[3], optimal_detuning_off=op[4], correct_phase_drift=op[5])
    if k == "modify_eom":
        return seq.modify_eom_setpoint(op[1], op[2], op[3], optimal_detuning_off=op[4], correct_phase_drift=op[5])
    if k == "eom_pulse":
        return seq.add_eom_pulse(op[1], op[2], op[3], post_phase_shift=op[4], protocol=op[5], correct_phase_drift=op[6])
    if k == "disable_eom":
        return seq.disable_eom_mode(op[1], correct_phase_drift=op[2])
    if k == "config_dmm":
        return seq.config_detuning_map(world.detmap(op[1]), op[2])
    if k == "add_dmm":
        return seq.add_dmm_detuning(make_wf(op[1]), op[2], protocol=op[3] if len(op) > 3 else "no-delay")
    if k == "slm":
        return seq.config_slm_mask(_tl(op[1], world), *(op[2:3]))
    if k == "measure":
        return seq.measure(op[1])
    if k == "magfield":
        return seq.set_magnetic_field(*op[1:4])
    if k == "declare_var":
        return seq.declare_variable(op[1], dtype=int if (len(op) < 3 or op[2] == "int") else float)
    if k == "delay_v":  # delay by a variable: own (declared in seq) or foreign (declared in another sequence)
        return seq.delay(_var(seq, op[1], world), op[2])
    if k == "add_v":  # constant pulse whose amplitude is a variable
        from pulser import Pulse

        return seq.add(Pulse.ConstantPulse(op[2], _var(seq, op[1], world), 0.0, 0.0), op[3])
    if k == "eom_pulse_v":  # EOM pulse whose duration is a variable
        return seq.add_eom_pulse(op[2], _var(seq, op[1], world), 0.0)
    if k == "enable_eom_v":  # EOM mode whose amplitude is a variable
        return seq.enable_eom_mode(op[2], _var(seq, op[1], world), 0.0)
    if k == "modify_eom_v":
        return seq.modify_eom_setpoint(op[2], _var(seq, op[1], world), 0.0)
    if k == "raw":  # ("raw", method, args, kwargs) — for deliberately ill-typed calls
        return getattr(seq, op[1])(*op[2], **(op[3] if len(op) > 3 else {}))
    if k == "add_obj":  # a non-Pulse object
        return seq.add(op[1], op[2])
    if k == "ro":
        return read_only(seq, op, world)
    if k == "estimate":
        return seq.estimate_added_delay(make_pulse(op[1]), op[2], protocol=op[3] if len(op) > 3 else "min-delay")
    raise ValueError(f"unknown op {op}")


def _var(seq, name, world):
    if name.startswith("foreign"):
        other = world.fresh(apply_prefix=False)
        return other.declare_variable(name.split(":")[-1] if ":" in name else "x", dtype=int)
    v = seq.declared_variables[name]
    return v[0]


def read_only(seq, op, world):
    """Operations that must never change a sequence (C09)."""
    kind = op[1]
    if kind == "str":
        return str(seq)
    if kind == "sample":
        from pulser.sampler import sample

        return sample(seq, modulation=bool(op[2]) if len(op) > 2 else False)
    if kind == "draw":
        import matplotlib.pyplot as plt

        try:
            return seq.draw(show=False, **(op[2] if len(op) > 2 else {}))
        finally:
            plt.close("all")
    if kind == "duration":
        return [seq.get_duration(), seq.get_duration(include_fall_time=True)] + [
            seq.get_duration(c, include_fall_time=f) for c in seq.declared_channels for f in (False, True)]
    if kind == "phase_ref":
        return [seq.current_phase_ref(q, b) for b in seq.get_addressed_bases() for q in world.qids]
    if kind == "estimate":
        return [seq.estimate_added_delay(make_pulse(op[2]), c, protocol=pr) for c in seq.declared_channels
                for pr in ("min-delay", "no-delay", "wait-for-all")]
    if kind == "abstract":
        return seq.to_abstract_repr()
    if kind == "serialize":
        return seq._serialize()
    if kind == "observers":
        return [dict(seq.declared_channels), dict(seq.available_channels), seq.is_parametrized(), seq.is_measured(),
                seq.declared_variables, seq.get_addressed_bases(), seq.get_addressed_states(),
                [seq.is_in_eom_mode(c) for c in seq.declared_channels]]
    if kind == "build":
        return seq.build()
    raise ValueError(f"unknown read-only op {op}")


def op_channels(op) -> tuple:
    """Names of the channels an op may append slots to."""
    k = op[0]
    if k in ("add", "delay", "target", "target_kw", "target_index", "add_dmm", "eom_pulse_v", "enable_eom_v", "modify_eom_v", "delay_v"):
        return (op[2],)
    if k == "add_v":
        return (op[3],)
    if k == "align":
        return tuple(op[1])
    if k in ("enable_eom", "modify_eom", "eom_pulse", "disable_eom", "declare"):
        return (op[1],)
    return ()


def corner(cname: str, **extra) -> dict:
    spec = copy.deepcopy(CORNERS[cname])
    spec["name"] = cname
    spec.update(extra)
    return spec


def selfcheck() -> None:
    for n in CORNERS:
        w = World(corner(n, prefix=[("declare", "g", "rydberg_global"), ("declare", "l", "raman_local", "q0")]))
        s = w.fresh()
        apply(s, ("add", ["c", 52, 1.0, 0.0, 0.0], "g"), w)
        apply(s, ("add", ["b", 100, 1.0, 0.0, 0.5], "l", "min-delay"), w)
        assert s.get_duration() > 0
