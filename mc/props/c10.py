"""C10 — phase-jump time and retarget intervals are honoured (model-free monitors + RefSched equality)."""
from __future__ import annotations

import itertools
import math

from mc.monitors import physical_fall
from mc import alphabets as A
from mc import refsched, seqx
from mc.evidence import Result
from mc.worlds import corner

TWO_PI = 2 * math.pi


def _pdiff(a, b):
    d = (a - b) % TWO_PI
    return min(d, TWO_PI - d)


def _last_real(ch):
    for s in reversed(ch.slots):
        if s.kind == "pulse" and not s.pulse.detuned_delay:
            return s
    return None


def phase_jump(ctx):
    op = ctx.op
    if op[0] not in ("add", "eom_pulse") or ctx.exc is not None:
        return []
    name = op[1] if op[0] == "eom_pulse" else op[2]
    proto = op[5] if op[0] == "eom_pulse" else (op[3] if len(op) > 3 else "min-delay")
    pre, post = ctx.pre, ctx.post
    if name not in pre.channels:
        return []
    p1 = _last_real(pre.channels[name])
    p2 = post.channels[name].slots[-1]
    if p1 is None or p2.kind != "pulse":
        return []
    if _pdiff(p1.pulse.phase, p2.pulse.phase) <= 1e-9:
        ctx.act["same_phase_pairs"] += 1
        return []
    if proto == "no-delay":
        ctx.act["phase_change_no_delay"] += 1
        return []
    p = ctx.world.params(pre.channels[name].ch_id)
    in_eom = pre.channels[name].in_eom()
    fall = min(p1.fall_std, p1.fall_eom if p1.fall_eom is not None else p1.fall_std)
    if in_eom:
        need = 2 * p["eom"]["rise"]
        ctx.act["phase_jump_in_eom"] += 1
    else:
        need = p["pjt_eff"] + fall
        ctx.act["phase_jump_outside_eom"] += 1
    gap = p2.ti - p1.tf
    if need > 0:
        ctx.act["phase_jump_buffer_required"] += 1
    if not in_eom and not p1.in_eom and p["bw"]:
        # the same requirement with the fall time taken from the scheduled samples (documented filter), not from Pulse.fall_time
        need2 = p["pjt_eff"] + physical_fall(p1, p["bw"])
        ctx.act["phase_jump_physical_bound_compared"] += 1
        if gap < need2:
            return [(f"C10:phase-jump-before-the-output-has-ended:{proto}",
                     f"{name}: pulses of phase {p1.pulse.phase:.4g} -> {p2.pulse.phase:.4g} separated by {gap} < phase-jump time + {need2 - p['pjt_eff']} ns of modulated output")]
    if gap < need:
        return [(f"C10:phase-jump-too-short:{'eom' if in_eom else 'std'}:{proto}",
                 f"{name}: pulses of phase {p1.pulse.phase:.4g} -> {p2.pulse.phase:.4g} separated by {gap} < {need}")]
    return []


def retarget(ctx):
    op = ctx.op
    out = []
    # state invariant on every local channel
    for name, ch in ctx.post.channels.items():
        p = ctx.world.params(ch.ch_id)
        if not p["local"]:
            continue
        tslots = [s for s in ch.slots if s.kind == "target"]
        for a, b in zip(tslots, tslots[1:]):
            ctx.act["retarget_pairs"] += 1
            if b.tf - a.tf < (p["retarget"] or 0):
                out.append(("C10:retarget-interval", f"{name}: target slots end at {a.tf} and {b.tf}, interval {p['retarget']}"))
            if b.tf - b.ti < (p["fixed_rt"] or 0):
                out.append(("C10:fixed-retarget-time", f"{name}: retarget {b.brief()} shorter than {p['fixed_rt']}"))
        for i, s in enumerate(ch.slots):
            if s.kind == "target" and i > 0:
                for q in reversed(ch.slots[:i]):
                    if q.kind == "pulse":
                        lo = q.tf + min(q.fall_std, q.fall_eom if q.fall_eom is not None else q.fall_std)
                        if q.fall_std > 0:
                            ctx.act["retarget_after_pulse_with_fall"] += 1
                        if s.ti < lo:
                            out.append(("C10:retarget-before-ramp-down", f"{name}: {s.brief()} begins before {q.brief()} ramped down ({lo})"))
                        if not q.in_eom and not q.cur_eom and p["bw"]:
                            lo2 = q.tf + physical_fall(q, p["bw"])
                            ctx.act["retarget_physical_bound_compared"] += 1
                            if s.ti < lo2:
                                out.append(("C10:retarget-before-the-output-has-ended", f"{name}: {s.brief()} begins while the modulated output of {q.brief()} is present (until {lo2})"))
                        break
    if op[0] == "target" and ctx.exc is None and op[2] in ctx.pre.channels and ctx.pre.channels[op[2]].slots:
        pre_ch, post_ch = ctx.pre.channels[op[2]], ctx.post.channels[op[2]]
        want = tuple(sorted(list(op[1]) if isinstance(op[1], (list, tuple, set)) else [op[1]], key=str))
        if want == pre_ch.slots[-1].targets:
            ctx.act["same_target_calls"] += 1
            if any(s.kind == "pulse" and s.tf + s.fall_cur > pre_ch.end for s in pre_ch.slots[-1:]):
                ctx.act["same_target_with_pending_fall"] += 1
            if len(post_ch.slots) != len(pre_ch.slots):
                out.append(("C10:same-target-inserts", f"{op[2]}: target({want}) appended {[s.brief() for s in post_ch.slots[len(pre_ch.slots):]]}"))
    return out


def conformance(ctx):
    if ctx.op[0] not in ("add", "target", "eom_pulse", "enable_eom", "disable_eom"):  # EOM buffers decide the gap of pairs across a block edge
        return []
    return [(f"C10:refsched:{fp}", d) for fp, d in refsched.conformance(ctx) if "slot" in fp]


MONITORS = [phase_jump, retarget, conformance]


def catalog():
    out = []
    for i, (pjt, bw, clock, mind, rt, frt) in enumerate(itertools.product(
            [None, 0, 42], [None, 8, 30], [1, 4], [1, 16], [0, 220], [0, 30])):
        out.append(dict(name=f"cat{i}", pjt=pjt, bw=bw, clock=clock, min_dur=mind, retarget=rt, fixed_rt=frt))
    return out


def slice_of(i: int) -> int:
    """Twelfth of the catalog a configuration belongs to.  Digits of i in the product order are (pjt, bw, clock, min_dur,
    retarget, fixed); a slice takes (pjt + bw) % 3 and ((clock, min_dur) + (retarget, fixed)) % 4 constant, so every slice
    of 12 contains every value of every parameter and all four (retarget, fixed) combinations (a plain i % 12 would
    keep the two fastest-varying parameters fixed)."""
    f = i % 2
    e = (i // 2) % 2
    d = (i // 4) % 2
    c = (i // 8) % 2
    b = (i // 16) % 3
    a = (i // 48) % 3
    return ((a + b) % 3) * 4 + ((c * 2 + d) + (e * 2 + f)) % 4


def plan(tier, seed):
    cat = catalog()
    rt = A.retarget()
    worlds = [
        (corner("real", prefix=A.GL, retarget=220, fixed_rt=0), rt, 3),
        (corner("awk", prefix=A.GL), rt, 3),
        (corner("unit8", prefix=A.GL, retarget=220, fixed_rt=30, pjt=0), rt, 3),
        (corner("real", prefix=A.GL, retarget=100, fixed_rt=200, name="real-fixed-longer-than-interval"), rt, 3),
        (corner("unit8", prefix=A.GL, name="unit8-fall-tail"), A.fall_tail(rise=60), 4 if tier == "quick" else 3),
        (corner("awk", prefix=A.GL, qubits=3, qid_alias={"q0": 2, "q1": 0, "q2": 1}, name="awk-int-ids-out-of-order"), rt, 3),
        # a maximum duration per instruction smaller than the waits the channel needs (retarget interval, fall time, phase jump)
        (corner("real", prefix=A.GL, retarget=220, fixed_rt=0, max_dur=100, name="real-max-duration-below-waits"), rt, 3),
        (corner("unit", prefix=A.GL, retarget=220, fixed_rt=30, pjt=150, max_dur=100, name="unit-max-duration-below-waits"), rt, 3),
        (corner("awk", prefix=[("declare", "g", "rydberg_global")], name="awk-eom"), A.eom_phase(), 4),
        (corner("real", prefix=[("declare", "g", "rydberg_global")], name="real-eom", eom=dict(mod_bandwidth=20)), A.eom_phase(), 4),
        (corner("unit8", prefix=[("declare", "g", "rydberg_global")], name="eom-slower-than-channel", bw=30, eom=dict(mod_bandwidth=8)), A.eom_phase(), 4),
    ]
    if tier == "quick":
        k = seed % 12
        worlds += [(dict(c, prefix=A.GL), rt, 3) for i, c in enumerate(cat) if slice_of(i) == k]
    else:
        worlds = [(w, a, d + 1) for w, a, d in worlds]
        worlds += [(dict(c, prefix=A.GL), rt, 4) for c in cat]
    return worlds


def run(tier, seed):
    res = Result("model_checking")
    cov = seqx.run_plan(res, plan(tier, seed), MONITORS)
    cov["traces_validated_against_impl"] = res.activations.get("refsched_compared", 0)
    cov["slice"] = f"catalog slice {seed % 12} of 12 (every slice holds every value of every parameter, see slice_of)" if tier == "quick" else "all 144 catalog configurations"
    cov["rule"] = ("BFS over all call histories up to the stated depth per configuration; configurations = corners + catalog "
                   "product {pjt None/0/42} x {bw None/8/30} x {clock 1/4} x {min_dur 1/16} x {retarget 0/220} x {fixed 0/30}")
    res.coverage = cov
    res.required_activations = ["phase_jump_buffer_required", "phase_jump_in_eom", "retarget_pairs", "same_target_with_pending_fall",
                                "retarget_after_pulse_with_fall", "refsched_compared:target"]
    res.assumptions = ["fall time of the first pulse: the smaller of its EOM / non-EOM fall times is the enforced lower bound",
                       "in EOM mode only the weakest reading (>= 2 x EOM rise time) is enforced model-free; RefSched pins the exact gap"]
    return res


def replay(payload):
    return seqx.replay(payload, MONITORS)
