"""C15 — EOM mode: square pulses, physical off-detuning, buffers, drift correction.
(a) SeqX on the EOM channel: RefSched equality + model-free block monitors; (b) GridX over EOM
configurations x setpoints with an independent light-shift computation; (c) emulator: drift-corrected EOM
histories vs the same pulses with zero off-detuning."""
from __future__ import annotations

import itertools
import math
import multiprocessing as mp

import numpy as np

from mc import alphabets as A
from mc import refsched, seqx
from mc.evidence import Result, Violation
from mc.worlds import World, apply, corner, make_eom

PI2 = A.PI2


# ---- (a) ------------------------------------------------------------------------------------------
def blocks(ctx):
    """Inside every EOM block pulses are square at the block's setpoint and idle slots carry its off-detuning;
    enable/modify store exactly the requested setpoint."""
    out = []
    k = ctx.op[0]
    for name, ch in ctx.post.channels.items():
        if not ch.eom_blocks:
            continue
        end = ch.end
        for s in ch.slots:
            if not s.in_eom:
                continue
            blk = next(b for b in ch.eom_blocks if b[3] <= s.ti < (end if b[4] is None else b[4]))
            if s.kind == "pulse" and not s.pulse.detuned_delay:
                ctx.act["eom_pulses_checked"] += 1
                if (np.abs(s.pulse.amp - blk[0]) > 1e-9).any() or (np.abs(s.pulse.det - blk[1]) > 1e-9).any():
                    out.append((f"C15:pulse-not-at-setpoint:{k}", f"{name}: {s.brief()} amp {s.pulse.amp[0]} det {s.pulse.det[0]} vs block {blk[:2]}"))
            elif s.kind == "pulse":
                ctx.act["eom_idle_checked"] += 1
                if (np.abs(s.pulse.det - blk[2]) > 1e-9).any() or blk[2] == 0:
                    out.append((f"C15:idle-detuning:{k}", f"{name}: {s.brief()} det {s.pulse.det[0]} vs off-detuning {blk[2]}"))
            elif s.kind == "delay":
                ctx.act["eom_idle_checked"] += 1
                if blk[2] != 0:
                    out.append((f"C15:idle-without-off-detuning:{k}", f"{name}: plain {s.brief()} in a block with off-detuning {blk[2]}"))
    if ctx.exc is None and k in ("enable_eom", "modify_eom") and ctx.op[1] in ctx.post.channels:
        b = ctx.post.channels[ctx.op[1]].eom_blocks[-1]
        ctx.act["setpoints_checked"] += 1
        if abs(b[0] - ctx.op[2]) > 1e-12 or abs(b[1] - ctx.op[3]) > 1e-12 or b[4] is not None:
            out.append((f"C15:setpoint-not-stored:{k}", f"block {b} vs requested ({ctx.op[2]}, {ctx.op[3]})"))
    return out


def conformance(ctx):
    if ctx.op[0] not in ("enable_eom", "modify_eom", "disable_eom", "eom_pulse", "delay", "add"):
        return []
    ch = ctx.op[2] if ctx.op[0] in ("delay", "add") else ctx.op[1]
    if ctx.op[0] in ("delay", "add") and not (ch in ctx.pre.channels and ctx.pre.channels[ch].eom_blocks):
        return []
    return [(f"C15:refsched:{fp}", d) for fp, d in refsched.conformance(ctx)]


def idle_tail(ctx):
    """A channel left in EOM mode idles at the off-detuning of its current setpoint for as long as the sequence is extended
    (other channels running longer, sample(extended_duration=...)): sampled with the public sampler, whatever the last slot is."""
    if ctx.exc is not None or not ctx.post.flags["building"]:
        return []
    open_ch = {n: ch for n, ch in ctx.post.channels.items() if ch.eom_blocks and ch.eom_blocks[-1][4] is None and ch.slots}
    if not open_ch:
        return []
    import warnings

    from pulser.sampler import sample

    T = max(c.end for c in ctx.post.channels.values())
    out = []
    with warnings.catch_warnings():
        warnings.simplefilter("ignore")
        try:
            ss = sample(ctx.seq, extended_duration=T + 37)
        except Exception:
            return []  # sampling as such is C06's subject
    for n, ch in open_ch.items():
        if n not in ss.channel_samples:
            continue
        cs = ss.channel_samples[n]
        det = np.asarray(cs.det.as_array(detach=True) if hasattr(cs.det, "as_array") else cs.det, dtype=float)
        amp = np.asarray(cs.amp.as_array(detach=True) if hasattr(cs.amp, "as_array") else cs.amp, dtype=float)
        if len(det) != T + 37:
            continue
        off = ch.eom_blocks[-1][2]
        ctx.act["open_eom_tails_sampled"] += 1
        if ch.slots[-1].kind == "pulse" and not ch.slots[-1].pulse.detuned_delay:
            ctx.act["open_eom_tails_after_a_pulse"] += 1
        tail_d, tail_a = det[ch.end:], amp[ch.end:]
        if np.abs(tail_d - off).max() > 1e-9 or np.abs(tail_a).max() > 1e-12:
            last = "pulse" if ch.slots[-1].kind == "pulse" and not ch.slots[-1].pulse.detuned_delay else "idle"
            out.append((f"C15:idle-tail-not-at-off-detuning:after-{last}", f"{n}: idle from {ch.end} to {T + 37} sampled at detuning {tail_d[0]:.6g} "
                        f"(amp {tail_a.max():.3g}), off-detuning of the open block {off:.6g}"))
    return out


MONITORS = [blocks, conformance, idle_tail]


# ---- (b) ------------------------------------------------------------------------------------------
def options_independent(cfg, amp, det_on):
    """Allowed off-detunings from the beam light shifts (written from the RydbergEOM docstring)."""
    D = cfg["intermediate_detuning"]
    cB, cR = cfg["blue_shift_coeff"], cfg["red_shift_coeff"]
    lim = cfg["limiting_beam"]
    # balanced beams: cB*OB^2 == cR*OR^2 and OR*OB = 2*D*amp
    prod = 2 * D * amp
    OR2 = prod * math.sqrt(cB / cR)
    OB2 = prod * math.sqrt(cR / cB)
    lim2 = OR2 if lim == "RED" else OB2
    if lim2 > cfg["max_limiting_amp"] ** 2 * (1 + 1e-15):
        l_amp = cfg["max_limiting_amp"]
        o_amp = prod / l_amp
        OR2, OB2 = (l_amp**2, o_amp**2) if lim == "RED" else (o_amp**2, l_amp**2)

    def ls(beams):
        v = 0.0
        if "BLUE" in beams:
            v += cB * OB2
        if "RED" in beams:
            v -= cR * OR2
        return v / (4 * D)

    offset = det_on - ls({"RED", "BLUE"})
    combos = [(b,) for b in cfg["controlled_beams"]]
    if len(cfg["controlled_beams"]) > 1 and cfg["multiple_beam_control"]:
        combos.append(("BLUE", "RED"))
    return [(offset + ls({"RED", "BLUE"} - set(c)), tuple(sorted(c))) for c in combos]


def grid_cases(tier):
    cfgs = []
    for lim, ctrl, mbc, (cb, cr) in itertools.product(
            ["RED", "BLUE"], [["BLUE"], ["RED"], ["BLUE", "RED"]], [True, False], [(1.0, 1.0), (0.8, 1.1)]):
        cfgs.append(dict(limiting_beam=lim, controlled_beams=ctrl, multiple_beam_control=mbc, blue_shift_coeff=cb,
                         red_shift_coeff=cr, max_limiting_amp=188.5, intermediate_detuning=2827.4, mod_bandwidth=40,
                         custom_buffer_time=None))
    lim_rabi = 188.5**2 / (2 * 2827.4)
    amps = [0.5, lim_rabi * 0.999, lim_rabi, lim_rabi * 1.001, 12.0] if tier == "quick" else \
        [0.1, 0.5, 2.0, lim_rabi * 0.9, lim_rabi * 0.999, lim_rabi, lim_rabi * 1.001, 8.0, 12.0, 20.0]
    dets = [-5.0, 0.0, 5.0]
    opts = [round(-50 + 5 * i, 6) for i in range(21)]
    return cfgs, amps, dets, opts


def grid(res, tier):
    cfgs, amps, dets, opts = grid_cases(tier)
    n = nontrivial = 0
    samples = []
    for ci, cfg in enumerate(cfgs):
        eom = make_eom(cfg)
        for amp, det in itertools.product(amps, dets):
            ref = options_independent(cfg, amp, det)
            try:
                impl_opts = [float(x) for x in eom.detuning_off_options(amp, det)]
            except Exception as e:
                res.add(Violation(f"C15:options-raise:{type(e).__name__}", repr(e), {"engine": "grid", "cfg": cfg, "amp": amp, "det": det, "opt": 0.0}))
                continue
            ok = len(impl_opts) == len(ref) and all(abs(a - b[0]) <= 1e-9 * max(1, abs(a)) for a, b in zip(impl_opts, ref))
            if not ok:
                res.add(Violation(f"C15:option-set:{cfg['limiting_beam']}:{'+'.join(cfg['controlled_beams'])}:mbc={cfg['multiple_beam_control']}",
                                  f"amp={amp} det_on={det}: implementation {impl_opts} vs independent {[r[0] for r in ref]}",
                                  {"engine": "grid", "cfg": cfg, "amp": amp, "det": det, "opt": 0.0}))
            # also exact midpoints between neighbouring options
            vals = sorted(r[0] for r in ref)
            mids = [(a + b) / 2 for a, b in zip(vals, vals[1:])]
            for opt in opts + mids + [v for v in vals]:
                n += 1
                chosen, beams = eom.calculate_detuning_off(amp, det, opt, return_switching_beams=True)
                chosen = float(chosen)
                best = min(abs(r[0] - opt) for r in ref)
                tie = sum(1 for r in ref if abs(abs(r[0] - opt) - best) < 1e-9) > 1
                if len(ref) > 1:
                    nontrivial += 1
                pay = {"engine": "grid", "cfg": cfg, "amp": amp, "det": det, "opt": opt}
                if not any(abs(chosen - r[0]) <= 1e-9 * max(1, abs(chosen)) for r in ref):
                    res.add(Violation("C15:chosen-not-in-option-set", f"{chosen} not in {[r[0] for r in ref]}", pay))
                elif abs(abs(chosen - opt) - best) > 1e-9:
                    res.add(Violation("C15:chosen-not-closest", f"optimum {opt}: chose {chosen}, closest is at distance {best}", pay))
                else:
                    if not tie:
                        exp_beams = next(r[1] for r in ref if abs(r[0] - chosen) <= 1e-9 * max(1, abs(chosen)))
                        got = tuple(sorted(b.name for b in beams))
                        if got != exp_beams and len({round(r[0], 9) for r in ref}) == len(ref):
                            res.add(Violation("C15:switching-beams", f"chosen {chosen}: beams {got} vs {exp_beams}", pay))
                    again = float(eom.calculate_detuning_off(amp, det, chosen))
                    if abs(again - chosen) > 1e-12:
                        res.add(Violation("C15:stored-choice-not-reproduced", f"{chosen} -> {again}", pay))
                if len(samples) < 3 and ci % 7 == 0:
                    samples.append({"cfg": ci, "amp": amp, "det_on": det, "optimum": opt, "chosen": chosen})
    return n, nontrivial, samples


# ---- (c) ------------------------------------------------------------------------------------------
EMU_OPS = [
    ("eom_pulse", "g", 100, 0.0, 0.0, "no-delay", True),
    ("eom_pulse", "g", 60, PI2, 0.0, "min-delay", True),
    ("delay", 40, "g"),
    ("modify_eom", "g", 3.0, -1.0, -20.0, True),
    ("disable_eom", "g", True),
    ("add", ["c", 80, 2.5, 0.0, 0.0], "g"),
    ("enable_eom", "g", 2.0, 1.0, -10.0, True),
]


def emu_histories(tier):
    depth = 3 if tier == "quick" else 4
    first = ("enable_eom", "g", 2.0, 1.0, -10.0, True)  # NB: the off-detuning of this setpoint is exactly 0 (drift only after modify)
    strong = ("enable_eom", "g", 20.0, 0.0, -40.0, True)  # off-detuning -31.8 rad/us: every idle ns in the block drifts the phase
    out = []
    for d in range(1, depth + 1):
        for tail in itertools.product(EMU_OPS, repeat=d):
            out.append((first,) + tail)
    for d in range(1, depth):
        for tail in itertools.product(EMU_OPS, repeat=d):
            out.append((strong,) + tail)
            # an ordinary pulse BEFORE the block whose fall time (103 ns at 0.3 rad/us) is not a multiple of the channel clock (16 ns here, so that the rounding is 9 / 6 ns):
            # the wait before the buffer is rounded up, and the drift is counted from where the off-detuning really starts
            for a in (0.3, 0.1):
                out.append((("@world", "clock16"), ("add", ["c", 400, a, 0.0, 0.0], "g"), strong) + tail)
    return out


EMU_WORLD = corner("real", name="emu-eom", prefix=[("declare", "g", "rydberg_global")], qubits=2, clock=1, min_dur=1,
                   eom=dict(controlled_beams=["BLUE"]))
EMU_WORLD4 = corner("real", name="emu-eom-clock16", prefix=[("declare", "g", "rydberg_global")], qubits=2, clock=16, min_dur=16,
                    eom=dict(controlled_beams=["BLUE"]))


def emu_tol(hist):
    """The emulator interpolates between integer-ns samples: where a strongly detuned idle slot meets a pulse, half a sample of
    both is mixed (31.8 rad/us x 0.5 ns = 0.016 rad), which moves populations by a few 1e-4.  Histories with the strong setpoint
    are therefore compared at 6e-4, the others at 5e-5."""
    return 6e-4 if any(len(op) > 4 and op[0] in ("enable_eom",) and op[2] == 20.0 for op in hist) else 5e-5


def emu_case(hist):
    """Populations of the drift-corrected EOM history vs the same pulses with zero off-detuning and no corrections."""
    from pulser import Pulse, Register, Sequence
    from pulser_simulation import QutipEmulator

    w = World(EMU_WORLD)
    if hist and hist[0][0] == "@world":
        w = World(EMU_WORLD4)
        hist = hist[1:]
    reg = Register({"q0": (0.0, 0.0)})
    seq = Sequence(reg, w.device)
    seq.declare_channel("g", "rydberg_global")
    accepted = []
    for op in hist:
        try:
            apply(seq, op, w)
            accepted.append(op)
        except Exception:
            return None  # not a valid history (e.g. EOM pulse outside EOM mode)
    sched = seq._schedule["g"]
    from pulser.sequence._schedule import _ChannelSchedule

    pulses = []
    for s in sched.slots:
        if hasattr(s.type, "amplitude") and not _ChannelSchedule.is_detuned_delay(s.type):
            pulses.append((s.ti, s.tf, float(s.type.amplitude.samples[0]), float(s.type.detuning.samples[0])))
    if not pulses:
        return None
    prog = [op[3] if op[0] == "eom_pulse" else 0.0 for op in accepted if op[0] in ("eom_pulse", "add")]
    if len(prog) != len(pulses):
        return ("harness", f"{len(prog)} programmed vs {len(pulses)} scheduled")
    ref_w = World(dict(name="emu-ref"))
    ref = Sequence(reg, ref_w.device)
    ref.declare_channel("g", "rydberg_global")
    t = 0
    for (ti, tf, amp, det), ph in zip(pulses, prog):
        if ti > t:
            ref.delay(ti - t, "g")
        ref.add(Pulse.ConstantPulse(tf - ti, amp, det, ph), "g", protocol="no-delay")
        t = tf
    if seq.get_duration() > t:
        ref.delay(seq.get_duration() - t, "g")

    def pop(s):
        st = QutipEmulator.from_sequence(s).run().get_final_state().full().ravel()
        return float(abs(st[0]) ** 2)

    return (pop(seq), pop(ref), len(pulses))


def plan(tier, seed):
    ef = A.eom_full()
    worlds = [
        (corner("real", prefix=[("declare", "g", "rydberg_global")], name="real-eom"), ef, 3),
        (corner("awk", prefix=[("declare", "g", "rydberg_global")], name="awk-eom-custom-buffer"), ef, 3),
        (corner("unit8", prefix=A.GL, name="unit8-eom-two-channels",
                eom=dict(controlled_beams=["BLUE", "RED"], limiting_beam="BLUE")), A.eom_full(l="l"), 3),
    ]
    slow = (corner("unit8", prefix=[("declare", "g", "rydberg_global")], name="eom-slower-than-channel", bw=30, eom=dict(mod_bandwidth=8)), ef, 3)
    if tier == "thorough":
        worlds = [(w, a, d + 2) for w, a, d in worlds[:2]] + [(worlds[2][0], worlds[2][1], 4), (slow[0], ef, 4)]
    else:
        worlds[seed % 2] = (worlds[seed % 2][0], ef, 4)
        worlds.append(slow)
        # custom buffer shorter than the channel's own fall time (but longer than the EOM's)
        worlds.append((corner("unit8", prefix=[("declare", "g", "rydberg_global")], name="eom-custom-buffer-below-channel-fall",
                              eom=dict(custom_buffer_time=40)), ef, 3))
        worlds.append((corner("real", prefix=[("declare", "g", "rydberg_global")], name="real-eom-max-duration-below-waits", max_dur=100), ef, 3))
    return worlds


def run(tier, seed):
    res = Result("model_checking")
    cov = seqx.run_plan(res, plan(tier, seed), MONITORS)
    cov["traces_validated_against_impl"] = res.activations.get("refsched_compared", 0)
    n, nt, samples = grid(res, tier)
    cov["grid_evaluations"] = n
    cov["grid_multi_option_cases"] = nt
    cov["grid_samples"] = samples
    hists = emu_histories(tier)
    with mp.get_context("fork").Pool(seqx.NPROC) as pool:
        outs = pool.map(emu_case, hists, chunksize=4)
    valid = 0
    worst = 0.0
    for h, o in zip(hists, outs):
        if o is None:
            continue
        if o[0] == "harness":
            raise RuntimeError(f"emu harness: {o[1]} for {h}")
        valid += 1
        worst = max(worst, abs(o[0] - o[1]))
        res.activations["emu_histories"] = res.activations.get("emu_histories", 0) + 1
        if abs(o[0] - o[1]) > emu_tol(h):
            kinds = "+".join(sorted({op[0] for op in h[1:]}))
            res.add(Violation(f"C15:drift-correction-populations:{kinds}",
                              f"P(r)={o[0]:.6f} with drift correction vs {o[1]:.6f} for the same {o[2]} pulses at zero off-detuning",
                              {"engine": "emu", "history": [list(x) for x in h]}, len(h)))
    cov["emu_histories_enumerated"] = len(hists)
    cov["emu_histories_valid"] = valid
    cov["emu_max_population_error"] = worst
    cov["rule"] = ("(a) BFS over EOM call histories with RefSched equality; (b) full grid EOM configuration x amp x det_on x optimum "
                   "(incl. exact midpoints) against an independent light-shift computation; (c) all valid drift-corrected EOM "
                   "histories up to the depth, emulated against the same pulses at zero off-detuning")
    res.coverage = cov
    res.required_activations = ["eom_pulses_checked", "eom_idle_checked", "setpoints_checked", "refsched_compared:enable_eom",
                                "refsched_compared:modify_eom", "refsched_compared:disable_eom", "emu_histories"]
    res.assumptions = ["populations compared at the end of the sequence with tolerance 5e-5 (6e-4 for the -31.8 rad/us off-detuning: sample interpolation of the emulator)", "EOM option set derived from the "
                       "documented light-shift formula ls = (c_B O_B^2 - c_R O_R^2) / 4 Delta with the limiting beam capped"]
    return res


def replay(payload):
    eng = payload.get("engine")
    if eng == "grid":
        r = Result("x")
        cfg = payload["cfg"]
        eom = make_eom(cfg)
        amp, det, opt = payload["amp"], payload["det"], payload["opt"]
        ref = options_independent(cfg, amp, det)
        impl_opts = [float(x) for x in eom.detuning_off_options(amp, det)]
        out = []
        if not (len(impl_opts) == len(ref) and all(abs(a - b[0]) <= 1e-9 * max(1, abs(a)) for a, b in zip(impl_opts, ref))):
            out.append(Violation(f"C15:option-set:{cfg['limiting_beam']}:{'+'.join(cfg['controlled_beams'])}:mbc={cfg['multiple_beam_control']}", "option set", payload))
        chosen = float(eom.calculate_detuning_off(amp, det, opt))
        best = min(abs(x[0] - opt) for x in ref)
        if not any(abs(chosen - x[0]) <= 1e-9 * max(1, abs(chosen)) for x in ref):
            out.append(Violation("C15:chosen-not-in-option-set", "", payload))
        elif abs(abs(chosen - opt) - best) > 1e-9:
            out.append(Violation("C15:chosen-not-closest", "", payload))
        return out
    if eng == "emu":
        h = tuple(tuple(x) for x in payload["history"])
        o = emu_case(h)
        if o and o[0] != "harness" and abs(o[0] - o[1]) > emu_tol(h):
            kinds = "+".join(sorted({op[0] for op in h[1:]}))
            return [Violation(f"C15:drift-correction-populations:{kinds}", f"{o}", payload)]
        return []
    return seqx.replay(payload, MONITORS)
