"""C07 — phase references are additive and applied to every pulse.
SeqX with an independent accumulator + RefSched phase-reference equality; Ramsey clause on the emulator."""
from __future__ import annotations

import math

import numpy as np

from mc import alphabets as A
from mc import refsched, seqx
from mc.evidence import Result, Violation
from mc.refsched import basis_of
from mc.worlds import programmed_phase, World, apply, corner, make_pulse, programmed_post

TWO_PI = 2 * math.pi


def _pd(a, b):
    d = (a - b) % TWO_PI
    return min(d, TWO_PI - d)


def accumulator(ctx):
    """Independent bookkeeping of one transition: which (basis, atom) references may change, and by how much."""
    if ctx.exc is not None:
        return []
    op = ctx.op
    pre, post = ctx.pre, ctx.post
    expected = {}  # (basis, q) -> increment
    k = op[0]
    drift_op = False
    if k == "phase_shift":
        qs = list(op[2]) if op[2] else list(pre.basis_ref.get(op[3], {}))
        for q in qs:
            expected[(op[3], q)] = op[1]
    elif k == "add":
        name = op[2]
        if name in pre.channels and pre.channels[name].slots and not pre.channels[name].is_dmm:
            pps = programmed_post(op[1])  # as written by the caller, not as reported back by the built Pulse
            if pps != 0:
                for q in pre.channels[name].slots[-1].targets:
                    expected[(basis_of(pre.channels[name].ch_id), q)] = pps
    elif k == "eom_pulse":
        name = op[1]
        if op[6]:
            drift_op = True
        elif op[4] != 0:
            for q in pre.channels[name].slots[-1].targets:
                expected[(basis_of(pre.channels[name].ch_id), q)] = op[4]
    elif k in ("enable_eom", "modify_eom") and op[5] or k == "disable_eom" and op[2]:
        drift_op = True
    out = []
    for basis, d in post.basis_ref.items():
        for q, (times, phases, used) in d.items():
            if basis in pre.basis_ref and q in pre.basis_ref[basis]:
                old = pre.basis_ref[basis][q][1][-1]
                old_times = pre.basis_ref[basis][q][0]
            else:
                old, old_times = 0.0, (0,)
            ctx.act["refs_checked"] += 1
            if not (0 <= phases[-1] < TWO_PI + 1e-12):
                out.append((f"C07:reference-not-in-range:{k}", f"{basis}/{q}: {phases[-1]}"))
            inc = expected.get((basis, q), 0.0)
            if drift_op and basis == basis_of(pre.channels[op[1]].ch_id) and q in pre.channels[op[1]].slots[-1].targets:
                continue  # drift corrections are judged by the RefSched comparison
            if inc:
                ctx.act["ref_increments"] += 1
            if _pd(phases[-1], old + inc) > 1e-9:
                kind = "missed-or-wrong" if inc else "unrelated-reference-changed"
                out.append((f"C07:{kind}:{k}", f"{basis}/{q}: {old:.9f} -> {phases[-1]:.9f}, expected increment {inc}"))
            if times[: len(old_times) - 1] != old_times[:-1]:
                out.append((f"C07:reference-history-rewritten:{k}", f"{basis}/{q}: {old_times} -> {times}"))
    return out


def pulse_phase(ctx):
    """Every newly scheduled pulse carries programmed phase + reference of its targets, and starts no earlier than
    the latest shift of its targets."""
    if ctx.exc is not None:
        return []
    op = ctx.op
    k = op[0]
    if k == "add":
        prog = programmed_phase(op[1])
        name, prog = op[2], (float(make_pulse(op[1]).phase) if prog is None else prog)
    elif k == "eom_pulse" and not op[6]:
        name, prog = op[1], op[3]
    else:
        return []
    pre, post = ctx.pre, ctx.post
    if name not in pre.channels or not pre.channels[name].slots or pre.channels[name].is_dmm:
        return []
    s = post.channels[name].slots[-1]
    if s.kind != "pulse":
        return []
    basis = basis_of(pre.channels[name].ch_id)
    out = []
    for q in s.targets:
        times, phases, used = pre.basis_ref[basis][q]
        ctx.act["pulse_phase_checked"] += 1
        if phases[-1] != 0:
            ctx.act["pulse_with_nonzero_ref"] += 1
        if _pd(s.pulse.phase, prog + phases[-1]) > 1e-9:
            out.append((f"C07:pulse-phase:{k}", f"{name}: scheduled phase {s.pulse.phase:.9f}, programmed {prog} + ref({q}) {phases[-1]:.9f}"))
        if times[-1] > 0:
            ctx.act["pulse_after_shift"] += 1
        if s.ti < times[-1]:
            out.append((f"C07:pulse-before-shift:{k}", f"{name}: pulse at {s.ti}, latest shift of {q} at {times[-1]}"))
    return out


def conformance(ctx):
    return [(f"C07:refsched:{fp}", d) for fp, d in refsched.conformance(ctx) if "ref-" in fp or "phase" in d]


MONITORS = [accumulator, pulse_phase, conformance]


# ---- templates built several times ----------------------------------------------------------------
def build_history_cases(tier):
    """One template (mappable or concrete register; shifts before and after the first variable) built for every sequence of 2-3
    assignments: each built sequence's references are the sum of ITS shifts, and the template's own references stay put."""
    import itertools

    vals = (0.5, 1.25, -2.0)
    out = []
    for mappable in (False, True):
        for n in (2, 3):
            for seqv in itertools.product(vals, repeat=n):
                out.append(("builds", mappable, seqv))
    return out


def check_build_history(mappable, seqv):
    import warnings

    from pulser import Pulse, Register, Sequence
    from pulser.register.mappable_reg import MappableRegister
    from pulser.register.register_layout import RegisterLayout

    out = []
    w = World(corner("unit", prefix=[]))
    with warnings.catch_warnings():
        warnings.simplefilter("ignore")
        L = RegisterLayout([(0.0, 0.0), (8.0, 0.0), (0.0, 8.0)])
        qids = ["q0", "q1", "q2"]
        reg = MappableRegister(L, *qids) if mappable else L.define_register(0, 1, 2, qubit_ids=qids)
        t = Sequence(reg, w.device)
        t.declare_channel("r", "rydberg_local", initial_target="q0")
        a0, a1 = 0.75, 0.3
        t.phase_shift(a0, "q0", basis="ground-rydberg")
        v = t.declare_variable("v", dtype=float)
        t.phase_shift(v, "q0", basis="ground-rydberg")
        t.add(Pulse.ConstantPulse(52, 1.0, 0.0, 0.25, post_phase_shift=2 * v), "r")
        t.phase_shift(a1, "q1", basis="ground-rydberg")
        t.add(Pulse.ConstantPulse(52, 1.0, 0.0, 0.5), "r")
        kw = {"qubits": {"q0": 0, "q1": 1, "q2": 2}} if mappable else {}
        built = []
        for i, x in enumerate(seqv):
            b = t.build(v=x, **kw)
            built.append((x, b))
            # every sequence built so far (they must not share anything either)
            for j, (xj, bj) in enumerate(built):
                want = {"q0": a0 + xj + 2 * xj, "q1": a1, "q2": 0.0}
                for q, wv in want.items():
                    got = float(bj.current_phase_ref(q, "ground-rydberg"))
                    if _pd(got, wv) > 1e-9:
                        out.append((f"C07:built-sequence-reference-is-not-the-sum-of-its-shifts:{'mappable' if mappable else 'concrete'}:{'later-build-changed-it' if j < i else 'build-' + str(min(i, 1) + 1)}",
                                    f"builds {seqv[:i + 1]}: build #{j + 1} (v={xj}) has reference {got:.6f} for {q}, its shifts add up to {wv % TWO_PI:.6f}"))
                pulses = [sl for sl in bj._schedule["r"].slots if not isinstance(sl.type, str)]
                wantp = [0.25 + a0 + xj, 0.5 + a0 + 3 * xj]
                for sl, wp in zip(pulses, wantp):
                    if _pd(float(sl.type.phase), wp) > 1e-9:
                        out.append((f"C07:built-pulse-phase:{'mappable' if mappable else 'concrete'}", f"builds {seqv[:i + 1]}: build #{j + 1} pulse at {sl.ti} has phase {float(sl.type.phase):.6f}, expected {wp % TWO_PI:.6f}"))
            # the template: only the shift made before the first variable has been applied to it
            got_t = float(t._basis_ref["ground-rydberg"]["q0"].phase.last_phase)
            if _pd(got_t, a0) > 1e-9:
                out.append((f"C07:building-changed-the-templates-reference:{'mappable' if mappable else 'concrete'}", f"after builds {seqv[:i + 1]} the template's q0 reference is {got_t:.6f}, expected {a0}"))
    return out + [("@builds", "")]


# ---- Ramsey clause on the emulator --------------------------------------------------------------
def ramsey_cases(tier):
    n = 24 if tier == "quick" else 96
    phis = [round(-7.0 + 14.0 * i / (n - 1), 6) for i in range(n)] + [0.0, round(math.pi, 9), round(2 * math.pi, 9), -3.0, 9.5]
    chans = [("rydberg_global", "ground-rydberg", None), ("rydberg_local", "ground-rydberg", "q0"),
             ("raman_global", "digital", None), ("raman_local", "digital", "q0"), ("mw_global", "XY", None)]
    out = [(ch, b, t, phi, via) for ch, b, t in chans for phi in phis for via in ("shift", "post")]
    # something between the two pulses (plain delay, user-built zero-amplitude hold shorter / longer than the phase-jump time)
    # and the second pulse added with either protocol, on channels with and without a phase-jump time
    some = [phis[i] for i in range(0, len(phis), max(1, len(phis) // 8))]
    for ch, b, t in chans[:2] + chans[4:]:
        for phi in some:
            for via in ("shift", "post"):
                for gap in ("delay-16", "hold-16", "hold-100", "hold-400"):
                    for proto in ("min-delay", "no-delay"):
                        for pjt in (None, 200):
                            out.append((ch, b, t, phi, via, gap, proto, pjt))
    # XY mode with an SLM mask on another (far away) atom, and a reference that is already non-zero when the FIRST pulse is played:
    # the first pulse reaches the unmasked atom through the mask's own path of the sampler
    for phi in some:
        for via in ("shift", "post"):
            for phi0 in (0.0, 2.0, -1.3):
                out.append(("mw_global", "XY", None, phi, via, None, "min-delay", None, phi0))
    return out


def ramsey(case):
    from pulser import Pulse, Register, Sequence
    from pulser_simulation import QutipEmulator

    ch, basis, tgt, phi, via = case[:5]
    gap, proto, pjt = case[5:8] if len(case) > 5 else (None, "min-delay", None)
    phi0 = case[8] if len(case) > 8 else None
    w = World(dict(name="ramsey", pjt=pjt))
    reg = Register({"q0": (0.0, 0.0)} if phi0 is None else {"q0": (0.0, 0.0), "q1": (400.0, 0.0)})
    seq = Sequence(reg, w.device)
    if phi0 is not None:
        seq.config_slm_mask(["q1"])
    seq.declare_channel("c", ch, initial_target=tgt)
    if phi0:
        seq.phase_shift(phi0, "q0", "q1", basis=basis)  # a Global channel needs one reference for all its targets
    half = Pulse.ConstantPulse(250, 2 * math.pi, 0.0, 0.0, post_phase_shift=phi if via == "post" else 0.0)  # pi/2
    seq.add(half, "c")
    if via == "shift":
        seq.phase_shift(phi, *(("q0",) if phi0 is None else ("q0", "q1")), basis=basis)
    if gap and gap.startswith("delay"):
        seq.delay(int(gap.split("-")[1]), "c")
    elif gap:
        seq.add(Pulse.ConstantPulse(int(gap.split("-")[1]), 0.0, 0.0, 0.0), "c", "no-delay")
    seq.add(Pulse.ConstantPulse(250, 2 * math.pi, 0.0, 0.0), "c", proto)
    sim = QutipEmulator.from_sequence(seq)
    st = sim.run().get_final_state().full().ravel()
    # index of the state reached from the initial one: r of (r,g); h of (g,h); d of (u,d) (initial state all-u)
    names = {"ground-rydberg": 0, "digital": 1, "XY": 1}
    if phi0 is not None:  # two atoms (u, d) x (u, d): population of d on q0, whatever the masked atom did afterwards
        p = float(abs(st[2]) ** 2 + abs(st[3]) ** 2)
        return p, math.cos(phi / 2) ** 2
    p = float(abs(st[names[basis]]) ** 2)
    return p, math.cos(phi / 2) ** 2


def run(tier, seed):
    res = Result("model_checking")
    ph = A.phases()
    plan = [
        (corner("unit", prefix=A.GR), A.phases(eom=False), 4 if tier == "thorough" else 3),
        (corner("real", prefix=A.GR), ph, 3),
        (corner("awk", prefix=A.DG, name="awk-dmm-first"), ph, 3),
        (corner("unit8", prefix=A.GRL, name="unit8-two-bases"), A.phases(l="l"), 3),
        (corner("real", prefix=A.GG, name="real-two-globals"), A.two_globals(), 3),
        # the mirror image of the first world (which atom is shifted last must not matter), with 3 atoms and integer ids
        (corner("unit", prefix=A.GR1, qubits=3, qid_alias={"q0": 2, "q1": 0, "q2": 1}, name="unit-mirror-int-ids"),
         A.phases(eom=False), 3),
        # a second channel on the same basis DECLARED after phase shifts were accumulated on it: the references are per basis, not per channel
        (corner("unit", prefix=[("declare", "g", "rydberg_global")], name="unit-second-channel-declared-mid-sequence"),
         A.phases(eom=False) + [("declare", "r", "rydberg_local", "q0"), ("declare", "r", "rydberg_local", "q1")], 3),
    ]
    if tier == "thorough":
        plan = [(w, a, d + 1) for w, a, d in plan]
    cov = seqx.run_plan(res, plan, MONITORS)
    cov["traces_validated_against_impl"] = res.activations.get("refsched_compared", 0)
    # Ramsey
    import multiprocessing as mp

    cases = ramsey_cases(tier)
    with mp.get_context("fork").Pool(seqx.NPROC) as pool:
        outs = pool.map(ramsey, cases, chunksize=4)
    worst = 0.0
    for case, (p, exp) in zip(cases, outs):
        worst = max(worst, abs(p - exp))
        res.activations["ramsey_runs"] = res.activations.get("ramsey_runs", 0) + 1
        if abs(p - exp) > 1e-4:
            res.add(Violation(f"C07:ramsey:{case[1]}:{case[0]}:{case[4]}",
                              f"phi={case[3]}: P(excited)={p:.6f}, cos^2(phi/2)={exp:.6f}",
                              {"engine": "ramsey", "case": list(case)}))
    bcases = build_history_cases(tier)
    for bc in bcases:
        res.activations["build_histories"] = res.activations.get("build_histories", 0) + 1
        for fp, d in check_build_history(bc[1], bc[2]):
            if not fp.startswith("@"):
                res.add(Violation(fp, d, {"engine": "builds", "case": [bc[0], bc[1], list(bc[2])]}))
    cov["build_histories"] = len(bcases)
    cov["ramsey_cases"] = len(cases)
    cov["ramsey_max_abs_error"] = worst
    cov["rule"] = ("BFS over call histories (phase shifts on subsets/bases, post-phase-shifts, retargets, EOM) with an independent "
                   "accumulator per (basis, atom); Ramsey pairs on the emulator for a phi grid incl. negatives and > 2pi")
    res.coverage = cov
    res.required_activations = ["ref_increments", "pulse_with_nonzero_ref", "pulse_after_shift", "refsched_compared", "ramsey_runs", "build_histories"]
    res.assumptions = ["EOM drift corrections are compared with RefSched's documented-rule value, not re-derived physically here (C15c)",
                       "Ramsey tolerance 1e-4 on the solver output"]
    return res


def replay(payload):
    if payload.get("engine") == "ramsey":
        case = payload["case"]
        p, exp = ramsey(tuple(case))
        if abs(p - exp) > 1e-4:
            return [Violation(f"C07:ramsey:{case[1]}:{case[0]}:{case[4]}", f"P={p} vs {exp}", payload)]
        return []
    if payload.get("engine") == "builds":
        c = payload["case"]
        return [Violation(fp, d, payload) for fp, d in check_build_history(c[1], tuple(c[2])) if not fp.startswith("@")]
    return seqx.replay(payload, MONITORS)
