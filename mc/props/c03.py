"""C03 — addressing-conflict protocols: no conflict, minimal delay, exact estimate, align.
SeqX co-simulation with RefSched (equality on every modelled transition) + model-free lower bounds."""
from __future__ import annotations

from mc import alphabets as A
from mc import refsched, seqx, snapshot
from mc.evidence import Result
from mc.monitors import physical_fall
from mc.refsched import adm, pending
from mc.worlds import corner

ADD_OPS = ("add", "add_dmm", "eom_pulse")


def _protocol(op):
    if op[0] == "add":
        return op[3] if len(op) > 3 else "min-delay"
    if op[0] == "add_dmm":
        return op[3] if len(op) > 3 else "no-delay"
    return op[5]


def _chan(op):
    return op[1] if op[0] == "eom_pulse" else op[2]


def pre_hook(seq, op, world):
    """Before every add: ask estimate_added_delay with the same arguments; it must not change the state."""
    if op[0] != "add":
        return {}
    from mc.worlds import make_pulse

    before = snapshot.snap(seq, True).hkey(with_calls=True)
    try:
        est = seq.estimate_added_delay(make_pulse(op[1]), op[2], protocol=_protocol(op))
    except Exception as e:
        est = e
    after = snapshot.snap(seq, True).hkey(with_calls=True)
    return {"estimate": est, "estimate_pure": before == after}


def conformance(ctx):
    if ctx.op[0] not in ("add", "add_dmm", "align", "delay", "eom_pulse", "phase_shift"):
        return []
    # "ref-used" / "ref-time": where the phase-shift barrier of an atom sits (the latest end of a pulse on it, the time of its latest
    # shift) is part of this property's 'no-delay' clause - the monitors below read the barrier from the library's own record
    return [(f"C03:refsched:{fp}", d) for fp, d in refsched.conformance(ctx)
            if "slot" in fp or "ref-used" in fp or "ref-time" in fp]


def protocols(ctx):
    """Model-free: lower bounds for min-delay / wait-for-all, phase barrier, exactness of no-delay."""
    op = ctx.op
    if op[0] not in ADD_OPS or ctx.exc is not None:
        return []
    name = _chan(op)
    pre, post = ctx.pre, ctx.post
    if name not in pre.channels or not pre.channels[name].slots:
        return []
    n0 = len(pre.channels[name].slots)
    new = post.channels[name].slots[n0:]
    if not new or new[-1].kind != "pulse":
        return [(f"C03:add-appended-no-pulse:{op[0]}", f"{name}: +{[s.brief() for s in new]}")]
    ps = new[-1]
    proto = _protocol(op)
    Q = set(ps.targets)
    t0 = pre.channels[name].end
    out = []
    from mc.refsched import basis_of

    basis = basis_of(pre.channels[name].ch_id)
    barrier = max([pre.basis_ref[basis][q][0][-1] for q in Q] + [0]) if basis in pre.basis_ref else 0
    ctx.act[f"protocol:{proto}"] += 1
    if ps.ti < barrier:
        out.append((f"C03:starts-before-phase-barrier:{proto}", f"{name}: pulse at {ps.ti}, latest phase shift of its targets at {barrier}"))
    if proto in ("min-delay", "wait-for-all"):
        for oname, och in pre.channels.items():
            if oname == name:
                continue
            for s in reversed(och.slots):
                if s.kind != "pulse" or s.pulse.detuned_delay:
                    continue
                if proto == "wait-for-all" or set(s.targets) & Q:
                    lo = s.tf + min(s.fall_own, s.fall_cur)
                    ctx.act["conflict_candidates"] += 1
                    if lo > t0:
                        ctx.act["conflict_delay_required"] += 1
                    if ps.ti < lo:
                        out.append((f"C03:conflict:{proto}", f"{name}: pulse at {ps.ti} but {oname} pulse {s.brief()} ramps down until {lo}"))
                    # the same bound from the scheduled samples alone (documented Gaussian filter), without Pulse.fall_time
                    if not s.in_eom and not s.cur_eom:
                        lo2 = s.tf + physical_fall(s, ctx.world.params(och.ch_id)["bw"])
                        ctx.act["physical_fall_compared"] += 1
                        if lo2 > s.tf + s.fall_std:
                            ctx.act["physical_fall_above_library_fall"] += 1
                        if ps.ti < lo2:
                            out.append((f"C03:conflict-with-modulated-output:{proto}", f"{name}: pulse at {ps.ti} but the modulated output of {oname} "
                                        f"pulse {s.brief()} (amplitude {s.pulse.amp_cls}, detuning {s.pulse.det_cls}) is still present until {lo2}"))
                    break
    else:  # no-delay: exactly at the channel's end or the barrier, whichever is later
        p = ctx.world.params(pre.channels[name].ch_id)
        exp = t0 if barrier <= t0 else t0 + adm(barrier - t0, p)
        if ps.ti != exp:
            out.append(("C03:no-delay-not-exact", f"{name}: pulse at {ps.ti}, expected {exp} (end {t0}, barrier {barrier})"))
    return out


def estimate(ctx):
    op = ctx.op
    if op[0] != "add" or "estimate" not in ctx.extra:
        return []
    est = ctx.extra["estimate"]
    out = []
    if not ctx.extra["estimate_pure"]:
        out.append(("C03:estimate-changes-state", "estimate_added_delay modified the sequence"))
    name = op[2]
    if ctx.exc is not None:
        return out  # refused add: nothing to compare (C09 covers refusals)
    if isinstance(est, Exception):
        out.append((f"C03:estimate-raises:{type(est).__name__}", f"add accepted but estimate raised {est!r}"))
        return out
    pre, post = ctx.pre, ctx.post
    t0 = pre.channels[name].end
    ps = post.channels[name].slots[-1]
    ctx.act["estimate_compared"] += 1
    if ps.ti - t0 > 0:
        ctx.act["estimate_nonzero"] += 1
    if est != ps.ti - t0:
        out.append((f"C03:estimate-differs:{_protocol(op)}", f"{name}: estimate {est}, inserted {ps.ti - t0}"))
    return out


def align(ctx):
    op = ctx.op
    if op[0] != "align" or ctx.exc is not None:
        return []
    at_rest = True if len(op) < 3 or op[2] is None else op[2]
    pre, post = ctx.pre, ctx.post
    names = list(op[1])
    ends = {n: pre.channels[n].end + (pending(pre.channels[n]) if at_rest else 0) for n in names}
    T = max(ends.values())
    out = []
    ctx.act["align_checked"] += 1
    if at_rest and any(pending(pre.channels[n]) > 0 for n in names):
        ctx.act["align_with_pending_fall"] += 1
    for n in names:
        e0, e1 = pre.channels[n].end, post.channels[n].end
        p = ctx.world.params(pre.channels[n].ch_id)
        if at_rest:
            last = next((s for s in reversed(pre.channels[n].slots) if s.kind == "pulse" and not s.pulse.detuned_delay), None)
            if last is not None and not last.in_eom and not last.cur_eom:
                rest = last.tf + physical_fall(last, p["bw"])
                if any(post.channels[m].end < rest for m in names):
                    out.append(("C03:align-at-rest-before-the-output-has-ended", f"{n}: modulated output of {last.brief()} present until {rest}, "
                                f"aligned channels end at {[post.channels[m].end for m in names]}"))
        exp = e0 if T <= e0 else e0 + adm(T - e0, p)
        if e1 < T:
            out.append((f"C03:align-ends-early:at_rest={at_rest}", f"{n}: ends at {e1}, latest end {'with fall time ' if at_rest else ''}is {T}"))
        elif e1 != exp:
            out.append((f"C03:align-not-minimal:at_rest={at_rest}", f"{n}: ends at {e1}, expected {exp}"))
    return out


MONITORS = [conformance, protocols, estimate, align]


def plan(tier, seed):
    tG = A.timing()
    worlds = [
        (corner("unit8", prefix=A.GL), tG, 3),
        (corner("real", prefix=A.GL), tG, 3),
        (corner("awk", prefix=A.GR, name="awk-samebasis"), A.timing(l="r", basis_l="ground-rydberg"), 3),
        (corner("mixed", prefix=A.GG, name="mixed-two-globals"), A.two_globals(), 3),
        (corner("mixed", prefix=A.GLD, name="mixed-dmm"), A.timing(dmm=True, faults=False), 2),
        (corner("unit", prefix=A.GL), tG, 2),
        (corner("real", prefix=A.LL, name="real-two-locals"), A.two_locals(), 4),
        (corner("unit8", prefix=A.GL, name="unit8-fall-tail"), A.fall_tail(rise=60), 4),
        (corner("awk", prefix=A.DG, qubits=3, qid_alias={"q0": 2, "q1": 0, "q2": 1}, name="awk-dmm-first-int-ids"),
         A.timing(l="r", basis_l="ground-rydberg", dmm=True, faults=False), 2),
        (corner("real", prefix=A.GL, name="real-fall-tail"), A.fall_tail(rise=60, step=4), 4 if tier == "quick" else 3),
        (corner("real", prefix=A.DEEP_GL_EOM, name="real-deep-root-in-eom"), tG, 2),
        (corner("real", prefix=[("slm", ["q0"])] + A.GL, name="real-ising-slm-mask"), A.timing(dmm=True, faults=False), 2),
        (corner("real", prefix=A.GL, max_dur=100, retarget=220, name="real-max-duration-below-waits"), tG, 2),
        (corner("unit", prefix=A.GR, over={"rydberg_local": dict(clock=4, min_dur=8)}, name="unit-samebasis-clock-1-vs-4"),
         A.timing(l="r", basis_l="ground-rydberg", eom=False), 3),
        # a minimum duration that is NOT a multiple of the clock (clock 4, minimum 10): automatic waits at or below the minimum
        # (retarget interval 8; an 8 ns cross-channel wait) must still land on the clock grid
        (corner("unit", prefix=A.GR, over={"rydberg_local": dict(clock=4, min_dur=10, retarget=8)}, name="unit-min-duration-off-the-clock-grid"),
         A.timing(l="r", basis_l="ground-rydberg", eom=False) + [("add", ["c", 100, 1.0, 0.0, 0.0], "g"), ("delay", 92, "r")], 3),
        (corner("unit8", prefix=A.GL, bw=30, eom=dict(mod_bandwidth=8), name="unit8-eom-slower-than-channel"), tG, 2),
        (corner("awk", prefix=A.DEEP_GL_AFTER, name="awk-deep-root-after-eom"), tG, 2),
        # a phase-jump time of ZERO on channels with a fall time of 120 ns: how long another channel's output takes to fall has nothing
        # to do with the phase-jump time (idle slots shorter than the fall time sit between a pulse and the channel's end)
        (corner("unit8", prefix=A.GL, pjt=0, name="unit8-phase-jump-time-zero"), A.timing(eom=False), 2),
        # ... and the same from a root in which one channel already ends with such a short idle slot, with a wait on the other channel that
        # reaches beyond it
        (corner("unit8", prefix=A.GL + [("add", A.C52, "g"), ("delay", 16, "g")], pjt=0, name="unit8-phase-jump-time-zero-short-idle-tail"),
         A.timing(eom=False) + [("delay", 100, "l")], 3),
    ]
    if tier == "thorough":
        worlds = [(w, a, d + 1) for w, a, d in worlds]
    return worlds


def run(tier, seed):
    res = Result("model_checking")
    cov = seqx.run_plan(res, plan(tier, seed), MONITORS, pre_hook=pre_hook)
    cov["traces_validated_against_impl"] = res.activations.get("refsched_compared", 0)
    cov["rule"] = ("BFS over all call histories up to the stated depth; on every transition the RefSched reference scheduler is "
                   "re-seeded from the implementation's pre-state and its prediction compared with the post-state")
    res.coverage = cov
    res.required_activations = ["refsched_compared", "conflict_delay_required", "estimate_nonzero", "align_with_pending_fall",
                                "protocol:no-delay", "protocol:wait-for-all", "protocol:min-delay", "physical_fall_compared"]
    res.assumptions = [
        "RefSched's exact start times use Pulse.fall_time of the scheduled pulses (decided by C14); independently of it, min-delay / "
        "wait-for-all starts and at-rest alignments are compared with a lower bound computed from the scheduled samples alone "
        "(documented Gaussian filter, output below max(0.01, 0.6 % of peak); standard mode only)",
        "zero-amplitude detuned delays of EOM blocks on other channels may or may not count as pulses (both accepted)",
        "no-delay: 'exactly at the barrier' is read as the least admissible delay reaching the barrier",
    ]
    return res


def replay(payload):
    return seqx.replay(payload, MONITORS, pre_hook=pre_hook)
