"""C09 — a sequence is exactly the effect of its successful calls.
SeqX in fault mode: every reachable state x (invalid-call menu + read-only menu); differential rebuild oracles."""
from __future__ import annotations

import math

from mc import alphabets as A
from mc import seqx, snapshot
from mc.evidence import Result
from mc.worlds import corner

PI2 = A.PI2
BIG = ["c", 52, 50.0, 0.0, 0.0]  # amplitude over max_amp=20
DET = ["c", 52, 1.0, 80.0, 0.0]  # detuning over max_det=60
SHORT = ["c", 8, 1.0, 0.0, 0.0]  # below min duration 16
LONG = ["c", 2000, 1.0, 0.0, 0.0]  # above channel max duration 1000
C300 = ["c", 300, 1.0, 0.0, 0.0]
LOWAVG = ["c", 52, 0.05, 0.0, 0.0]

CORE = [
    ("add", A.C52, "g"),
    ("add", A.C52P, "g", "no-delay"),
    ("add", C300, "g"),
    ("add", A.C52S, "l", "wait-for-all"),
    ("delay", 100, "l"),
    ("target", "q1", "l"),
    ("target", ["q0", "q2"], "l"),  # a caller-owned list, positional ...
    ("target_kw", ["q1", "q2"], "l"),  # ... and by keyword
    ("align", ("g", "l"), True),
    ("phase_shift", 1.0, ("q0",), "digital"),
    ("enable_eom", "g", 2.0, 0.0, -10.0, False),
    ("eom_pulse", "g", 52, PI2, 0.0, "min-delay", True),
    ("disable_eom", "g", False),
    ("declare", "r", "rydberg_local"),
    ("config_dmm", "m2", "dmm_0"),
    ("declare_var", "x"),
    ("delay_v", "x", "g"),
    ("measure", "ground-rydberg"),
]

# label -> op ; each entry is one failure cause on one operation
FAULTS = {
    "delay:negative": ("delay", -4, "g"),
    "delay:below-min": ("delay", 8, "l"),
    "delay:above-max": ("delay", 2000, "g"),
    "delay:non-numeric": ("raw", "delay", ["abc", "g"]),
    "delay:unknown-channel": ("delay", 100, "zz"),
    "delay:over-long-sequence": ("delay", 360, "g", True),
    # refused delays AT REST: the call first waits for the pending fall time and only then validates the duration
    "delay:at-rest-below-min": ("delay", 8, "g", True),
    "delay:at-rest-below-min-local": ("delay", 8, "l", True),
    "delay:at-rest-negative": ("delay", -4, "g", True),
    "delay:at-rest-above-max": ("delay", 2000, "l", True),
    "add:amp-over-limit": ("add", BIG, "g"),
    "add:det-over-limit": ("add", DET, "l"),
    "add:below-min-duration": ("add", SHORT, "g"),
    "add:above-max-duration": ("add", LONG, "g"),
    "add:below-min-avg-amp": ("add", LOWAVG, "g"),
    "add:unknown-channel": ("add", A.C52, "zz"),
    "add:bad-protocol": ("add", A.C52, "g", "asap"),
    "add:not-a-pulse": ("add_obj", 3.0, "g"),
    "add:on-dmm": ("add", A.C52, "dmm_0"),
    "add:local-without-target": ("add", A.C52, "r"),
    "add:over-long-sequence": ("add", C300, "l", "wait-for-all"),
    "add:post-shift-then-over-long": ("add", ["c", 300, 1.0, 0.0, 0.0, 1.0], "g"),
    "add:custom-waveform-off-clock": ("add", ["P", ["X", [1.0] * 18], ["C", 18, 0.0], 0.0], "g"),
    "target:unknown-qubit": ("target", "zz", "l"),
    "target:too-many": ("target", ["q0", "q1", "q2"], "l"),
    "target:empty": ("target", [], "l"),
    "target:global-channel": ("target", "q0", "g"),
    "target:unknown-channel": ("target", "q0", "zz"),
    "target:mixed-phase-refs": ("target", ["q0", "q1"], "l"),
    "target:over-long-sequence": ("target", "q2", "l"),
    "target_index:out-of-range": ("target_index", 7, "l"),
    "declare:name-in-use": ("declare", "g", "raman_global"),
    "declare:reserved-name": ("declare", "dmm_x", "raman_global"),
    "declare:unknown-id": ("declare", "n1", "nochannel"),
    "declare:unavailable-id": ("declare", "n2", "rydberg_global"),
    "declare:microwave-in-ising": ("declare", "n3", "mw_global"),
    "declare:bad-local-initial-target": ("declare", "n5", "rydberg_local", "zz"),
    "declare:too-many-initial-targets": ("declare", "n6", "rydberg_local", ["q0", "q1", "q2"]),
    "align:single": ("align", ("g",), True),
    "align:duplicate": ("align", ("g", "g"), True),
    "align:unknown": ("align", ("g", "zz"), True),
    "align:over-long-sequence": ("align", ("g", "l"), True),
    "phase_shift:unknown-basis": ("phase_shift", 1.0, ("q0",), "XY"),
    "phase_shift:unknown-qubit": ("phase_shift", 1.0, ("q0", "zz"), "digital"),
    "phase_shift:non-numeric": ("raw", "phase_shift", ["abc", "q0"], {"basis": "digital"}),
    "eom:enable-without-eom": ("enable_eom", "l", 2.0, 0.0, 0.0, False),
    "eom:enable-amp-over-limit": ("enable_eom", "g", 50.0, 0.0, 0.0, False),
    "eom:enable-det-over-limit": ("enable_eom", "g", 2.0, 80.0, 0.0, True),
    "eom:enable-unknown-channel": ("enable_eom", "zz", 2.0, 0.0, 0.0, False),
    "eom:pulse-below-min": ("eom_pulse", "g", 8, 0.0, 0.0, "min-delay", False),
    "eom:pulse-bad-protocol": ("eom_pulse", "g", 52, 0.0, 0.0, "asap", False),
    "eom:pulse-over-long": ("eom_pulse", "g", 300, 0.0, 1.0, "min-delay", True),
    "eom:modify-amp-over-limit": ("modify_eom", "g", 50.0, 0.0, 0.0, True),
    "eom:pulse-non-numeric-phase": ("raw", "add_eom_pulse", ["g", 52, "abc"]),
    "dmm:unknown-id": ("config_dmm", "m1", "dmm_9"),
    "dmm:positive-detuning": ("add_dmm", ["C", 52, 1.0], "dmm_0"),
    "dmm:below-bottom": ("add_dmm", ["C", 52, -100.0], "dmm_0"),
    "dmm:on-non-dmm": ("add_dmm", ["C", 52, -1.0], "g"),
    "dmm:over-long": ("add_dmm", ["C", 300, -1.0], "dmm_0", "wait-for-all"),
    "slm:unknown-qubit": ("slm", ["q0", "zz"]),
    "slm:unknown-dmm": ("slm", ["q0"], "dmm_9"),
    "measure:bad-basis": ("measure", "XY"),
    "var:foreign-variable": ("delay_v", "foreign:x", "g"),
    "var:foreign-unknown-name": ("delay_v", "foreign:y", "g"),
    "var:own-variable-unknown-channel": ("delay_v", "x", "zz"),
    "var:redeclare": ("declare_var", "x"),
    "var:protected-name": ("declare_var", "qubits"),
    "var:amp-variable-unknown-channel": ("add_v", "x", 52, "zz"),
    "var:foreign-in-pulse": ("add_v", "foreign:x", 52, "g"),
    "magfield:in-ising": ("magfield", 1.0, 0.0, 0.0),
    # refusals caused by the MODE of the channel / sequence, on calls that carry a variable (the plain versions are core ops)
    "mode:variable-pulse-on-eom-channel": ("add_v", "x", 52, "g"),
    "mode:variable-eom-pulse-outside-eom": ("eom_pulse_v", "x", "g"),
    "mode:variable-enable-eom-twice": ("enable_eom_v", "x", "g"),
    "mode:variable-modify-outside-eom": ("modify_eom_v", "x", "g"),
}

RO = {
    "ro:str": ("ro", "str"),
    "ro:sample": ("ro", "sample", False),
    "ro:sample-modulated": ("ro", "sample", True),
    "ro:duration": ("ro", "duration"),
    "ro:phase_ref": ("ro", "phase_ref"),
    "ro:estimate": ("ro", "estimate", A.C52P),
    "ro:estimate-blackman": ("ro", "estimate", A.B100),
    "ro:abstract": ("ro", "abstract"),
    "ro:serialize": ("ro", "serialize"),
    "ro:observers": ("ro", "observers"),
    "ro:build": ("ro", "build"),
    "ro:draw": ("ro", "draw"),
    "ro:draw-all": ("ro", "draw", dict(mode="input+output", draw_phase_area=True, draw_phase_shifts=True, draw_register=True,
                                        draw_detuning_maps=True, draw_qubit_amp=True, draw_qubit_det=True)),
    "ro:draw-phase-modulated": ("ro", "draw", dict(mode="output", as_phase_modulated=True, draw_phase_curve=True)),
}

XY_CORE = [
    ("add", A.C52, "m"),
    ("add", A.C52S, "m", "no-delay"),
    ("delay", 100, "m"),
    ("slm", ["q0"]),
    ("slm_kw", ["q1", "q2"]),
    ("magfield", 0.0, 1.0, 1.0),
    ("phase_shift", 1.0, ("q0",), "XY"),
    ("measure", "XY"),
]
XY_FAULTS = {
    "xy:declare-rydberg": ("declare", "n1", "rydberg_global"),
    "xy:config-dmm": ("config_dmm", "m1", "dmm_0"),
    "xy:slm-twice-or-unknown": ("slm", ["zz"]),
    "xy:magfield-zero": ("magfield", 0.0, 0.0, 0.0),
    "xy:measure-ising-basis": ("measure", "ground-rydberg"),
    "xy:add-amp-over": ("add", BIG, "m"),
    "xy:delay-negative": ("delay", -4, "m"),
    "xy:phase-shift-bad-basis": ("phase_shift", 1.0, ("q0",), "digital"),
}

# a sequence on which nothing has been declared yet (mode still undetermined)
FRESH_CORE = [
    ("declare", "g", "rydberg_global"),
    ("declare", "m", "mw_global"),
    ("declare", "l", "raman_local", "q0"),
    ("slm", ["q0"]),
    ("magfield", 0.0, 1.0, 1.0),
    ("config_dmm", "m2", "dmm_0"),
    ("declare_var", "x"),
]
FRESH_FAULTS = {
    "fresh:magfield-zero": ("magfield", 0.0, 0.0, 0.0),
    "fresh:magfield-non-numeric": ("raw", "set_magnetic_field", ["a", 0.0, 1.0]),
    "declare:unknown-id": ("declare", "n1", "nochannel"),
    "declare:reserved-name": ("declare", "dmm_x", "raman_global"),
    "declare:bad-local-initial-target": ("declare", "n5", "rydberg_local", "zz"),
    "fresh:declare-mw-bad-target": ("declare", "n6", "mw_global", "zz"),
    "slm:unknown-qubit": ("slm", ["q0", "zz"]),
    "slm:unknown-dmm": ("slm", ["q0"], "dmm_9"),
    "fresh:slm-not-a-collection": ("raw", "config_slm_mask", [5]),
    "dmm:unknown-id": ("config_dmm", "m1", "dmm_9"),
    "fresh:measure-without-channel": ("measure", "ground-rydberg"),
    "fresh:add-unknown-channel": ("add", A.C52, "g9"),
    "var:protected-name": ("declare_var", "qubits"),
    "fresh:var-bad-size": ("raw", "declare_variable", ["y"], {"size": 0}),
    "fresh:var-bad-dtype": ("raw", "declare_variable", ["y"], {"dtype": str}),
}

# the same on a device whose channels are NOT reusable: the DMM id of a still pending SLM mask is taken
FRESH_NR_CORE = [("slm", ["q0"], "dmm_0")] + [op for op in FRESH_CORE if op[0] != "slm"]
FRESH_NR_FAULTS = dict(FRESH_FAULTS, **{
    "dmm:id-taken-by-the-pending-slm-mask": ("config_dmm", "m1", "dmm_0"),
    "slm:second-mask": ("slm", ["q1"], "dmm_0"),
})

# an SLM mask on a DMM whose duration constraints are stricter than those of the Global channel that triggers the mask's pulse
SLM_CORE = [
    ("add", A.C52, "g"),
    ("delay", 16, "g"),
    ("add", A.C52, "l"),
    ("add", A.Z40, "g"),
    ("add_dmm", ["C", 52, -1.0], "dmm_0"),
]
SLM_FAULTS = {
    "add:mask-pulse-below-dmm-minimum": ("add", ["c", 10, 1.0, 0.0, 0.0], "g"),
    "add:mask-pulse-above-dmm-maximum": ("add", ["c", 200, 1.0, 0.0, 0.0], "g"),
    "add:mask-pulse-above-dmm-maximum-wait-for-all": ("add", ["c", 101, 1.0, 0.0, 0.0], "g", "wait-for-all"),
    "slm-world:delay-negative": ("delay", -4, "g"),
    "slm-world:add-unknown-channel": ("add", A.C52, "g9"),
}

LABEL = {}


def _alphabet(core, faults, ro):
    alpha = list(core)
    for lab, op in list(faults.items()) + list(ro.items()):
        LABEL[repr(_canon_op(op))] = lab
        alpha.append(op)
    return alpha


def _canon_op(o):
    """Ops as they are after a JSON round trip (lists) and as written in the menus (tuples) get the same label."""
    if isinstance(o, (list, tuple)):
        return tuple(_canon_op(x) for x in o)
    if isinstance(o, dict):
        return tuple(sorted((k, _canon_op(v)) for k, v in o.items()))
    return o


def label(op):
    return LABEL.get(repr(_canon_op(op)), op[0])


def _diff(pre, post):
    """Name of the first component in which two snapshots differ."""
    if [c.key() for c in pre.channels.values()] != [c.key() for c in post.channels.values()]:
        if list(pre.channels) != list(post.channels):
            return "channel-set"
        for n in pre.channels:
            a, b = pre.channels[n], post.channels[n]
            if [s.key() for s in a.slots] != [s.key() for s in b.slots]:
                return "timeline"
            if a.key() != b.key():
                return "channel-state"
    ka, kb = pre.key(), post.key()
    if ka[1] != kb[1]:
        return "phase-refs"
    if ka[2] != kb[2]:
        fa, fb = dict(ka[2]), dict(kb[2])
        return "flag:" + ",".join(sorted(k for k in fa if fa[k] != fb.get(k)))
    if pre.calls != post.calls or pre.to_build != post.to_build:
        return "call-log"
    return None


def cause(exc, ctx=None) -> str:
    m = str(exc)
    if "maximum duration allowed by the device" in m:
        return "max-sequence-duration"
    if ctx is not None and ctx.op[0] == "add" and m.startswith("duration"):
        # the first pulse on a Global channel also schedules the SLM mask's pulse on its DMM, which has duration limits of its own
        dmm = ctx.pre.flags.get("slm_dmm")
        if dmm in ctx.pre.channels and not any(s.kind == "pulse" for s in ctx.pre.channels[dmm].slots):
            return "slm-mask-pulse-refused-by-its-dmm"
    return type(exc).__name__


def atomic(ctx):
    """A call that raises leaves the sequence exactly as it was (full snapshot incl. call log and mode flags)."""
    if ctx.exc is None or ctx.op[0] == "ro":
        return []
    ctx.act["refused_calls"] += 1
    ctx.act["refusal:" + label(ctx.op)] += 1
    d = _diff(ctx.pre, ctx.post)
    if d is None:
        return []
    return [(f"C09:raise-changed-state:{label(ctx.op)}:{cause(ctx.exc, ctx)}:{d}", f"{type(ctx.exc).__name__}({str(ctx.exc)[:80]}) but {d} changed")]


def read_only(ctx):
    if ctx.op[0] != "ro":
        return []
    ctx.act["read_only_calls"] += 1
    if ctx.exc is None:
        ctx.act["read_only_returned"] += 1
    d = _diff(ctx.pre, ctx.post)
    if d is None:
        return []
    return [(f"C09:read-only-changed-state:{label(ctx.op)}:{d}", f"{d} changed ({'raised ' + type(ctx.exc).__name__ if ctx.exc else 'returned'})")]


ABSTRACT_DEPTH = {"n": 2}


def reproducible(ctx):
    """snapshot(seq) == snapshot(build()) == snapshot(switch_register(same)) == snapshot(decode(encode(seq)))."""
    if ctx.exc is not None or ctx.op[0] == "ro" or not ctx.post.flags["building"]:
        return []
    import warnings

    from pulser import Sequence

    seq = ctx.seq
    out = []
    ref = ctx.post.key()
    full0 = snapshot.snap(seq, True).key(with_calls=True)
    with warnings.catch_warnings():
        warnings.simplefilter("ignore")
        for how in ("build", "switch_register", "switch_device", "abstract"):
            if how == "abstract" and len(ctx.history) >= ABSTRACT_DEPTH["n"]:
                continue
            if how == "abstract" and any(not isinstance(q, str) for q in ctx.world.qids):
                continue  # the published schema stores qubit ids as strings (C17's known finding); the other three copies keep them
            try:
                other = _copy_of(seq, how, ctx.world)
            except Exception as e:
                ctxt = _first_uncopyable(ctx, how, type(e))
                out.append((f"C09:copy-raises:{how}:{type(e).__name__}:{ctxt}", f"{how}: {e!r}"[:200]))
                continue
            ctx.act["copies_compared:" + how] += 1
            s2 = snapshot.snap(other)
            if how == "build":
                s2.flags["vars"] = ctx.post.flags["vars"]  # a built copy carries no variables by design
            k2 = s2.key(ordered_channels=(how != "abstract"))
            k1 = ref if how != "abstract" else ctx.post.key(ordered_channels=False)
            if k1 != k2:
                d = _diff(ctx.post, s2) if how != "abstract" else "snapshot"
                out.append((f"C09:copy-differs:{how}:{d}", f"{how}: copy differs in {d}"))
            # the copy is independent: calls issued on it never reach the original (which received no call)
            for mut in _copy_mutations(other):
                try:
                    mut()
                except Exception:
                    pass
            ctx.act["copies_mutated"] += 1
            full1 = snapshot.snap(seq, True).key(with_calls=True)
            if full1 != full0:
                d = _diff(ctx.post, snapshot.snap(seq, True))
                out.append((f"C09:calls-on-copy-changed-original:{how}:{d}", f"after calls on the {how} copy the original differs in {d}"))
                full0 = full1
        # the caller goes on editing the list objects it passed as arguments: nothing of the sequence may follow
        if ctx.world.passed:
            for lst in ctx.world.passed:
                if isinstance(lst, set):
                    for q_ in ctx.world.qids:
                        if q_ in lst and len(lst) > 1:
                            lst.discard(q_)
                            break
                    lst.update(q_ for q_ in ctx.world.qids[-2:])
                    continue
                if lst:
                    lst[0] = ctx.world.qids[-1] if lst[0] != ctx.world.qids[-1] else ctx.world.qids[0]
                lst.reverse()
            ctx.act["caller_lists_edited"] += 1
            full2 = snapshot.snap(seq, True).key(with_calls=True)
            if full2 != full0:
                out.append((f"C09:editing-a-passed-list-changed-the-sequence:{_diff(ctx.post, snapshot.snap(seq, True))}",
                            "after the caller edited list objects it had passed as arguments (targets / SLM qubits) the sequence's "
                            "record of calls differs"))
            else:
                try:
                    other = seq.switch_register(ctx.world.register)
                    if snapshot.snap(other).key() != ref:
                        out.append(("C09:editing-a-passed-list-changed-the-replay", "switch_register copy differs after the caller edited its lists"))
                except Exception as e:
                    out.append((f"C09:copy-raises-after-list-edit:{type(e).__name__}", repr(e)[:200]))
    return out


def _copy_of(seq, how, world):
    from pulser import Sequence

    if how == "build":
        return seq.build(**{n: [100] * v.size for n, v in seq.declared_variables.items()})
    if how == "switch_register":
        return seq.switch_register(world.register)
    if how == "switch_device":
        import dataclasses

        # a renamed but otherwise identical device (the same device returns the sequence itself)
        other = seq.switch_device(dataclasses.replace(world.device, name="W_renamed"), strict=True)
        assert other is not seq
        return other
    return Sequence.from_abstract_repr(seq.to_abstract_repr())


def _first_uncopyable(ctx, how, etype):
    """Names the call after which this kind of copy FIRST raises this exception: every prefix of the history is replayed on
    a fresh sequence.  A sequence that cannot be copied stays so under later calls; the finding is the shortest history."""
    from mc.worlds import apply

    w = ctx.world
    seq = w.fresh()
    for op in list(ctx.history) + [ctx.raw or ctx.op]:
        pre_meas = snapshot.snap(seq).flags.get("meas")
        try:
            apply(seq, op, w)
        except Exception:
            continue
        try:
            _copy_of(seq, how, w)
        except Exception as e2:
            if type(e2) is etype:
                return label(w.xlate(op)) + (":after-measure" if pre_meas else "")
    return label(ctx.op) + (":after-measure" if ctx.pre.flags.get("meas") else "")


def _copy_mutations(other):
    """Successful-looking calls of every kind issued on a copy (each is tried; refusals are irrelevant here)."""
    from pulser import Pulse

    chans = list(other.declared_channels)
    muts = [lambda: other.declare_variable("zz_on_copy", dtype=int)]
    for b in other.get_addressed_bases():
        muts.append(lambda b=b: other.phase_shift(1.25, basis=b))
    for c in chans:
        muts.append(lambda c=c: other.delay(100, c))
        muts.append(lambda c=c: other.add(Pulse.ConstantPulse(52, 1.0, 0.0, 0.5, post_phase_shift=0.5), c))
    if len(chans) > 1:
        muts.append(lambda: other.align(*chans))
    muts.append(lambda: other.declare_channel("zz_copy_channel", "raman_global"))
    muts.append(lambda: other.measure(other.get_addressed_bases()[0] if other.get_addressed_bases() else "ground-rydberg"))
    return muts


MONITORS = [atomic, read_only, reproducible]

BASE_LIMITS = dict(max_amp=20.0, max_det=60.0, max_dur=1000, min_avg_amp=0.1, bottom_det=-50.0, total_bottom_det=-80.0)


def plan(tier, seed):
    core_small = [CORE[i] for i in (0, 1, 2, 3, 5, 6, 7, 10, 11, 14, 15, 16, 17)]
    plans = [
        (corner("real", prefix=A.GL, qubits=3, reusable=False, max_seq=400, name="real-physical-400", **BASE_LIMITS),
         _alphabet(CORE, FAULTS, RO), 2),
        (corner("awk", prefix=A.GL, qubits=3, max_seq=400, name="awk-400", **BASE_LIMITS),
         _alphabet(core_small, FAULTS, {k: v for k, v in RO.items() if "draw" not in k}), 3),
        (corner("unit8", prefix=[("declare", "m", "mw_global")], qubits=3, name="xy", max_amp=20.0, qid_alias={"q0": "z", "q1": "a", "q2": "m"}),
         _alphabet(XY_CORE, XY_FAULTS, RO), 3),
    ]
    plans.append((corner("unit8", prefix=[], qubits=3, name="fresh", max_amp=20.0), _alphabet(FRESH_CORE, FRESH_FAULTS, RO), 2))
    # integer qubit ids starting at the FALSY id 0 (what Register.square / from_coordinates hand out), given as scalar targets
    plans.append((corner("unit8", prefix=[], qubits=3, name="fresh-int-ids-from-0", max_amp=20.0, qid_alias={"q0": 0, "q1": 1, "q2": 2}),
                  _alphabet(FRESH_CORE + [("declare", "k", "raman_local", "q1"), ("target", "q0", "l"), ("add", A.C52, "l")], FRESH_FAULTS,
                            {k: v for k, v in RO.items() if "draw" not in k}), 3))
    # collections of ids handed over as dict views (register.qubits.keys()): valid Collections that cannot be copied
    plans.append((corner("unit8", prefix=[], qubits=3, container="keys", name="fresh-id-collections-given-as-dict-views", max_amp=20.0),
                  _alphabet(FRESH_CORE + [("declare", "k", "raman_local", ["q1"]), ("target", ["q0", "q1"], "l"), ("target_kw", ["q2"], "l"), ("slm_kw", ["q1", "q2"]),
                                          ("phase_shift", 1.0, ("q0",), "digital")], FRESH_FAULTS,
                            {k: v for k, v in RO.items() if "draw" not in k}), 2 if tier == "quick" else 3))
    # ... and as the caller's own SETS, which it goes on editing after the call
    plans.append((corner("unit8", prefix=[], qubits=3, container="set", name="fresh-id-collections-given-as-sets", max_amp=20.0),
                  _alphabet(FRESH_CORE + [("declare", "k", "raman_local", ["q1"]), ("target", ["q0", "q1"], "l"), ("target_kw", ["q2"], "l"), ("slm_kw", ["q1", "q2"]),
                                          ("add", A.C52, "l")], FRESH_FAULTS,
                            {k: v for k, v in RO.items() if "draw" not in k}), 2 if tier == "quick" else 3))
    plans.append((corner("unit8", prefix=[], qubits=3, reusable=False, name="fresh-channels-not-reusable", max_amp=20.0),
                  _alphabet(FRESH_NR_CORE, FRESH_NR_FAULTS, {k: v for k, v in RO.items() if "draw" not in k}), 2))
    plans.append((corner("unit", prefix=[("slm", ["q0"], "dmm_0")] + A.GL, qubits=3, over={"dmm": dict(clock=4, min_dur=16, max_dur=100)},
                         name="slm-mask-on-a-dmm-with-its-own-durations", max_amp=20.0),
                  _alphabet(SLM_CORE, SLM_FAULTS, {k: v for k, v in RO.items() if "draw" not in k}), 2))
    if tier == "thorough":
        plans = [(w, a, d + 1) for w, a, d in plans]
    return plans


def run(tier, seed):
    res = Result("fault_enumeration")
    ABSTRACT_DEPTH["n"] = 2 if tier == "quick" else 3
    cov = seqx.run_plan(res, plan(tier, seed), MONITORS, with_calls=True, key_calls=False)
    faults = sorted(k for k in res.activations if k.startswith("refusal:"))
    cov["evaluations"] = cov["transitions"]
    cov["distinct_nontrivial"] = res.activations.get("refused_calls", 0) + res.activations.get("read_only_calls", 0)
    cov["fault_causes_exercised"] = len(faults)
    cov["fault_causes_in_menu"] = len(FAULTS) + len(XY_FAULTS) + len(FRESH_FAULTS) + len(SLM_FAULTS) + 2
    cov["never_refused"] = sorted(set(list(FAULTS) + list(XY_FAULTS) + list(FRESH_NR_FAULTS) + list(SLM_FAULTS)) - {f[len("refusal:"):] for f in faults})
    cov["rule"] = ("every reachable state (BFS over the valid core ops, de-duplicated on the timeline snapshot) x every entry of the "
                   "invalid-call menu and the read-only menu; non-trivial = transitions in which a call was refused or a read-only "
                   "operation ran (full snapshot incl. call log compared before/after)")
    res.coverage = cov
    res.required_activations = ["refused_calls", "read_only_returned", "copies_compared:build", "copies_compared:abstract",
                                "copies_compared:switch_register"]
    res.assumptions = ["the abstract-repr round trip is applied to states of depth < %d only (cost); build and switch_register on all" % ABSTRACT_DEPTH["n"],
                       "round-trip copies are compared on the timeline / phase references / flags; channel order ignored after decoding"]
    return res


def replay(payload):
    for a, b, c in [(CORE, FAULTS, RO), (XY_CORE, XY_FAULTS, RO), (FRESH_CORE, FRESH_FAULTS, RO), (SLM_CORE, SLM_FAULTS, RO), (FRESH_NR_CORE, FRESH_NR_FAULTS, RO)]:
        _alphabet(a, b, c)
    ABSTRACT_DEPTH["n"] = 99
    return seqx.replay(payload, MONITORS, with_calls=True)
