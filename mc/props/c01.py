"""C01 — every scheduled pulse respects the limits of its channel and device.
(a) GridX: channel configurations x pulses at / just inside / just outside every limit, through every pulse-adding
entry point; (b) SeqX monitor: every pulse slot of every state of a timing exploration with limits defined."""
from __future__ import annotations

import itertools
import math
import warnings

import numpy as np

from mc import alphabets as A
from mc import gridx, seqx
from mc.evidence import Result, Violation
from mc.worlds import World, apply, corner, make_pulse, make_wf

EPS = 1e-3
NAN, INF = float("nan"), float("inf")


# ---- the predicate, written from the statement -----------------------------------------------------
def inside(amp, det, dur, p, dmm=None):
    """(verdict, reason). verdict True: inside every limit; False: outside; None: don't-care band.
    p: channel parameters (max_amp, max_det, clock, min_dur, max_dur, min_avg_amp); dmm: (bottom, total_bottom, weights)."""
    amp = np.asarray(amp, dtype=float)
    det = np.asarray(det, dtype=float)
    if not (np.all(np.isfinite(amp)) and np.all(np.isfinite(det))):
        return False, "non-finite-samples"
    if np.any(amp < 0):
        return False, "negative-amplitude"
    if p["max_amp"] is not None and np.max(amp) > p["max_amp"]:
        return False, "amp-over-max"
    avg = float(np.mean(amp))
    if 0 < avg < p["min_avg_amp"]:
        return False, "avg-amp-below-min"
    care = True
    if dmm is None:
        if p["max_det"] is not None:
            m = float(np.max(np.abs(det)))
            if m > p["max_det"] + 1e-6:
                return False, "det-over-max"
            if m > p["max_det"]:
                care = False  # within the documented 6-decimal rounding
    else:
        bottom, total, weights = dmm
        if np.max(det) > 1e-6:
            return False, "dmm-positive-detuning"
        if np.max(det) > 0:
            care = False
        lo = float(np.min(det))
        for lim, factor, why in ((bottom, max(weights), "dmm-below-bottom"), (total, sum(weights), "dmm-below-total-bottom")):
            if lim is not None:
                v = factor * lo
                if v < lim - 1e-6 * max(1.0, factor):
                    return False, why
                if v < lim:
                    care = False
    if dur < p["min_dur"]:
        return False, "duration-below-min"
    c = p["clock"]
    up = dur if dur % c == 0 else dur + c - dur % c
    if p["max_dur"] is not None:
        if dur > p["max_dur"]:
            return False, "duration-above-max"
        if up > p["max_dur"]:
            return False, "rounded-duration-above-max"
    return (True if care else None), "inside"


def peak_spec(kind, D, Apk):
    """Waveform spec of a given kind whose programmed peak is (about) Apk."""
    if kind == "constant":
        return ["C", D, Apk]
    if kind == "ramp":
        return ["R", D, Apk / 2 if math.isfinite(Apk) else Apk, Apk]
    if kind in ("blackman", "kaiser"):
        w = np.blackman(D) if kind == "blackman" else np.kaiser(D, 14.0)
        area = Apk * float(np.sum(w)) / (float(np.max(w)) * 1e3) if D > 2 and math.isfinite(Apk) else Apk * D / 1e3
        return ["B", D, area] if kind == "blackman" else ["K", D, area]
    if kind == "interpolated":
        return ["I", D, [0.0, Apk, Apk / 2 if math.isfinite(Apk) else Apk]]
    if kind == "composite":
        h = max(1, D // 2)
        return ["+", ["C", h, Apk], ["R", max(1, D - h), Apk, 0.0]]
    if kind == "custom":
        return ["X", [Apk] * D]
    raise ValueError(kind)


AMP_KINDS = ["constant", "ramp", "blackman", "kaiser", "interpolated", "composite", "custom"]
DET_KINDS = ["constant", "ramp", "custom"]
CHP = dict(max_amp=None, max_det=None, clock=1, min_dur=1, max_dur=None, min_avg_amp=0)


def chan_spec(**kw):
    p = dict(CHP)
    p.update(kw)
    return p


def grid_cases(tier):
    cases = []
    L = 10.0
    # G1 amplitude limits
    for max_amp, min_avg, kind, a, D in itertools.product(
            [None, L], [0, 2.0], AMP_KINDS, [0.0, 1.9, 2.0, 2.1, L - EPS, L, L + EPS, NAN, INF], [52, 50]):
        if kind in ("blackman", "kaiser", "interpolated", "composite", "ramp") and not math.isfinite(a) and kind != "ramp":
            continue
        cases.append(("add", chan_spec(max_amp=max_amp, min_avg_amp=min_avg, clock=4, min_dur=16), ("amp", kind, a), ("det", "constant", 0.0), D))
    # G1b the minimum AVERAGE amplitude next to a duration that is lengthened to the clock: waveforms of fixed area (Blackman, Kaiser)
    # lose average amplitude when stretched, so the pulse that is SCHEDULED may fall below the minimum although the one given did not
    for kind, delta, D, mind in itertools.product(AMP_KINDS, [1e-3, 0.02, 0.1, 0.3], [13, 17, 50, 51, 52], [4, 16]):
        cases.append(("add-avg", chan_spec(min_avg_amp=1.0, clock=4, min_dur=mind), kind, delta, D))
    # G1c history: the SAME pulse just inside a limit is scheduled first, then a pulse that compares equal to it under Pulse.__eq__'s
    # tolerance (1e-5 relative) but lies outside the limit - a repetition must be judged on its own, whatever came before
    for kind, rel, D in itertools.product(["constant", "ramp", "blackman", "interpolated"], [5e-6, 2e-6, -5e-6], [52, 100]):
        cases.append(("twin", chan_spec(max_amp=L, clock=4, min_dur=16), "max_amp", kind, rel, D))
        cases.append(("twin", chan_spec(min_avg_amp=1.0, clock=4, min_dur=16), "min_avg", kind, rel, D))
        cases.append(("twin", chan_spec(max_det=20.0, clock=4, min_dur=16), "max_det", kind, rel, D))
        cases.append(("twin", chan_spec(clock=4, min_dur=16), "dmm_bottom", kind, rel, D))
    # G1d history: after a pulse was accepted, the caller goes on USING the arrays it can read from that pulse (unit conversion,
    # masking, normalisation in place): the pulse that is scheduled stays the one that was validated
    for kind, edit in itertools.product(["constant", "ramp", "blackman", "interpolated", "composite", "custom"], ["scale", "nan", "zero"]):
        cases.append(("alias", chan_spec(max_amp=L, max_det=20.0, min_avg_amp=0.5, clock=4, min_dur=16), kind, edit))
    # G2 detuning limits
    M = 20.0
    for max_det, kind, d in itertools.product(
            [None, M, 0.0], DET_KINDS, [0.0, M - EPS, -(M - EPS), M, -M, M + 4e-7, -(M + 4e-7), M + EPS, -(M + EPS), 1e-7, -1e-7, EPS, NAN, INF, -INF]):
        cases.append(("add", chan_spec(max_det=max_det), ("amp", "constant", 1.0), ("det", kind, d), 52))
    # G3 durations
    for clock, mind, maxd, kind in itertools.product([1, 4], [1, 5, 16], [None, 100, 102], AMP_KINDS):
        durs = sorted({max(1, mind - 1), mind, mind + 1, 4 * clock * 5, 4 * clock * 5 + 1, 99, 100, 101, 102, 103, 104, 105})
        for D in durs:
            cases.append(("add", chan_spec(clock=clock, min_dur=mind, max_dur=maxd), ("amp", kind, 1.0), ("det", "constant", 0.0), D))
    # G4 crossing: several limits at once
    for a, d, D, kind in itertools.product([L, L + EPS], [M, M + EPS], [100, 101, 104, 105], AMP_KINDS):
        cases.append(("add", chan_spec(max_amp=L, max_det=M, clock=4, min_dur=16, max_dur=104), ("amp", kind, a), ("det", "constant", d), D))
    # G5 DMM: sign, bottoms, weights
    for bottom, total, wkey, d, kind in itertools.product(
            [None, -10.0], [None, -15.0], ["w1", "wmix", "wsingle", "wsum"],
            [1e-7, EPS, 0.0, -EPS, -5.0, -7.5 + EPS, -7.5, -7.5 - EPS, -10.0 + EPS, -10.0, -10.0 - 4e-7, -10.0 - EPS, -15.0, -15.0 - EPS, -30.0, NAN, -INF],
            DET_KINDS):
        cases.append(("add_dmm", chan_spec(clock=4, min_dur=16), (bottom, total, wkey), ("det", kind, d), 52))
    # G6 EOM entry points: amp_on / detuning_on / off-detuning vs limits, EOM pulse durations
    for a, d, D in itertools.product([L - EPS, L, L + EPS, 0.0], [-M - EPS, -M, 0.0, M, M + EPS], [8, 16, 50, 52, 100, 101, 104, 105]):
        cases.append(("eom", chan_spec(max_amp=L, max_det=M, clock=4, min_dur=16, max_dur=104), a, d, D))
    # G7 SLM-mask DMM pulse sized from the first global pulse
    for bottom, total, a, nmask in itertools.product([None, -10.0, -40.0], [None, -15.0, -60.0], [0.5, 2.0, 5.0], [1, 2, 3]):
        if bottom is not None and total is not None and total > bottom:
            continue
        cases.append(("slm", chan_spec(clock=4, min_dur=16), (bottom, total), a, nmask))
    cases += lengthen_cases(tier)
    if tier == "quick":
        return cases
    # thorough: G1-G4 on every combination of clock/min duration as well
    extra = []
    for c in cases:
        if c[0] == "add":
            for clock, mind in [(1, 1), (4, 5), (2, 16)]:
                p = dict(c[1])
                p.update(clock=clock, min_dur=mind)
                extra.append((c[0], p) + c[2:])
    return cases + extra


# G7 "otherwise only lengthened to the next clock multiple": every parametric waveform WITH its optional parameters (Kaiser beta,
# interpolation times, interpolator and the interpolator's own options), as amplitude or as detuning, at durations off the clock:
# what is scheduled is the same waveform - all options included - defined at the lengthened duration.
INTERP_OPTS = [
    {}, {"times": [0.0, 0.3, 1.0]},
    {"interpolator": "interp1d"}, {"interpolator": "interp1d", "times": [0.0, 0.6, 1.0]},
    {"interpolator": "interp1d", "kind": "quadratic"}, {"interpolator": "interp1d", "kind": "cubic"},
    {"interpolator": "interp1d", "kind": "previous"}, {"interpolator": "interp1d", "kind": "next"},
    {"interpolator": "interp1d", "kind": "nearest"}, {"interpolator": "interp1d", "kind": "zero"},
    {"interpolator": "interp1d", "kind": "slinear", "times": [0.0, 0.2, 0.5, 1.0]},
    {"interpolator": "PchipInterpolator", "extrapolate": False},
]


def lengthen_cases(tier):
    specs = [["C", 0, 2.0], ["R", 0, 0.5, 3.0], ["B", 0, 0.3], ["K", 0, 0.3], ["K", 0, 0.3, 2.0], ["K", 0, 0.3, 30.0]]
    for o in INTERP_OPTS:
        vals = [0.0, 3.0, 0.5, 2.0] if len(o.get("times", [0] * 4)) == 4 else [0.0, 3.0, 1.0]
        if o.get("kind") == "cubic":
            vals, o = [0.0, 3.0, 0.5, 2.0], dict(o, times=[0.0, 0.25, 0.7, 1.0])
        specs.append(["I", 0, vals, o])
    durs = [101, 102, 103, 49] if tier == "quick" else [101, 102, 103, 49, 50, 51, 17, 997]
    clocks = [4] if tier == "quick" else [4, 16, 3]
    return [("lengthen", chan_spec(clock=c, min_dur=16), sp, role, D) for c in clocks for sp in specs for role in ("amp", "det") for D in durs
            if D % c]


def lengthen_case(case):
    _, p, sp, role, D = case
    from pulser import Pulse
    from pulser.waveforms import ConstantWaveform

    c = p["clock"]
    Dn = D + c - D % c
    given, ref = list(sp), list(sp)
    given[1], ref[1] = D, Dn
    try:
        wf, wref = make_wf(given), make_wf(ref)
    except Exception as e:  # noqa: BLE001
        return [("@unbuildable", str(e)[:80])]
    if role == "amp":
        if float(np.min(np.asarray(wf.samples.as_array(detach=True)))) < 0 or float(np.min(np.asarray(wref.samples.as_array(detach=True)))) < 0:
            return [("@negative-amplitude-not-a-pulse", "")]
        pulse = Pulse(wf, ConstantWaveform(D, 0.0), 0.0)
    else:
        pulse = Pulse(ConstantWaveform(D, 1.0), wf, 0.0)
    w = _world(p)
    seq = w.fresh()
    seq.declare_channel("g", "rydberg_global")
    tag = f"{sp[0]}:{role}:" + ",".join(f"{k}={v}" for k, v in sorted((sp[3] if sp[0] == "I" and len(sp) > 3 else {}).items()) if k != "times") + \
        (":beta" if sp[0] == "K" and len(sp) > 3 else "")
    try:
        seq.add(pulse, "g")
    except Exception as e:  # noqa: BLE001
        return [(f"C01:valid-pulse-refused:lengthen:{tag}", f"{given} for {D} ns on a {c} ns clock: {type(e).__name__}: {e}"[:300])]
    s = _sched_pulses(seq, "g")[-1]
    if s.tf - s.ti != Dn:
        return [("C01:scheduled-duration", f"duration {D} scheduled as {s.tf - s.ti}, expected {Dn}")]
    got = np.asarray(s.pulse.amp if role == "amp" else s.pulse.det)
    exp = np.asarray(wref.samples.as_array(detach=True))
    other = np.asarray(s.pulse.det if role == "amp" else s.pulse.amp)
    out = []
    if not np.allclose(got, exp, rtol=1e-9, atol=1e-9):
        i = int(np.argmax(np.abs(got - exp)))
        out.append((f"C01:lengthened-pulse-parameters:{tag}", f"{given}: {D}->{Dn} ns, scheduled samples differ from the same waveform (same options) "
                    f"defined at {Dn} ns, e.g. sample {i}: {got[i]} vs {exp[i]}"))
    if not np.allclose(other, 0.0 if role == "amp" else 1.0, rtol=0, atol=1e-12):
        out.append((f"C01:lengthened-pulse-other-quadrature:{tag}", f"{given}: the constant {'detuning' if role == 'amp' else 'amplitude'} changed"))
    return out or [("@lengthened-as-defined", "")]



WEIGHTS = {"w1": {"q0": 1.0, "q1": 1.0, "q2": 1.0}, "wmix": {"q0": 0.25, "q1": 0.75}, "wsingle": {"q1": 1.0},
           "wsum": {"q0": 1.0, "q1": 0.6, "q2": 0.4}}


def _world(p, **extra):
    spec = dict(name="grid", qubits=3, reusable=True, bw=None, **{k: p[k] for k in ("clock", "min_dur", "max_dur", "max_amp", "max_det", "min_avg_amp")})
    spec.update(extra)
    return World(spec)


def _sched_pulses(seq, name):
    from mc import snapshot

    return [s for s in snapshot.chan_snap(name, seq._schedule[name]).slots if s.kind == "pulse"]


def grid_case(case):
    """Returns a list of (fingerprint, description)."""
    kind = case[0]
    out = []
    with warnings.catch_warnings():
        warnings.simplefilter("ignore")
        if kind == "lengthen":
            return lengthen_case(case)
        if kind == "add":
            _, p, (_, ak, a), (_, dk, d), D = case
            try:
                amp_wf, det_wf = make_wf(peak_spec(ak, D, a)), make_wf(peak_spec(dk, D, d))
            except Exception:
                return [("@unbuildable", "")]
            from pulser import Pulse

            try:
                pulse = Pulse(amp_wf, det_wf, 0.0)
            except Exception:
                return [("@unbuildable", "")]
            pa, pd = np.asarray(amp_wf.samples.as_array(detach=True)), np.asarray(det_wf.samples.as_array(detach=True))
            verdict, why = inside(pa, pd, D, p)
            w = _world(p)
            seq = w.fresh()
            seq.declare_channel("g", "rydberg_global")
            try:
                seq.add(pulse, "g")
                ok, err = True, None
            except Exception as e:
                ok, err = False, e
            tag = f"{ak}:{dk}"
            if verdict is True and not ok:
                c = p["clock"]
                if D % c and ak in ("composite", "custom") or D % c and dk == "custom":
                    return [("@may-refuse-unextendable", "")]
                out.append((f"C01:valid-pulse-refused:{tag}", f"{type(err).__name__}: {err} (amp peak {np.max(pa)}, det {d}, duration {D}, channel {p})"[:300]))
            elif verdict is False and ok:
                out.append((f"C01:invalid-pulse-accepted:{why}", f"{ak}/{dk} amp peak {np.nanmax(pa) if np.isfinite(pa).any() else a}, det {d}, duration {D} on channel {p}"[:300]))
            elif ok:
                s = _sched_pulses(seq, "g")[-1]
                c = p["clock"]
                Dn = D if D % c == 0 else D + c - D % c
                if s.tf - s.ti != Dn:
                    out.append(("C01:scheduled-duration", f"duration {D} scheduled as {s.tf - s.ti}, expected {Dn}"))
                elif Dn == D:
                    if not (np.allclose(s.pulse.amp, pa, rtol=0, atol=1e-12) and np.allclose(s.pulse.det, pd, rtol=0, atol=1e-12)):
                        out.append((f"C01:scheduled-pulse-altered:{tag}", "clock-multiple duration but samples changed"))
                else:
                    try:
                        ea = np.asarray(make_wf(peak_spec(ak, D, a)).change_duration(Dn).samples.as_array(detach=True))
                        ref = np.asarray(make_wf(_same_params(peak_spec(ak, D, a), Dn)).samples.as_array(detach=True))
                        if not np.allclose(s.pulse.amp, ref, rtol=1e-9, atol=1e-12):
                            out.append((f"C01:lengthened-pulse-parameters:{ak}", f"{D}->{Dn}: samples differ from the same waveform defined at {Dn}"))
                    except NotImplementedError:
                        pass
                v2, why2 = inside(s.pulse.amp, s.pulse.det, s.tf - s.ti, p)
                if v2 is False:
                    out.append((f"C01:scheduled-pulse-outside-limits:{why2}", f"{ak}/{dk} duration {D}->{s.tf - s.ti} on {p}"))
            return out + [("@" + ("accepted" if ok else "refused") + ":" + why, "")]
        if kind == "twin":
            _, p, lim, wk, rel, D = case
            from pulser import Pulse
            from pulser.waveforms import ConstantWaveform

            def mk(scale):
                """(pulse or detuning waveform, amp samples, det samples) with the limited quantity at `scale` x its limit."""
                if lim == "max_amp":
                    a = make_wf(peak_spec(wk, D, p["max_amp"] * scale))
                    return Pulse(a, ConstantWaveform(D, 0.0), 0.0), a, None
                if lim == "min_avg":
                    m = float(np.mean(np.asarray(make_wf(peak_spec(wk, D, 1.0)).samples.as_array(detach=True))))
                    a = make_wf(peak_spec(wk, D, p["min_avg_amp"] / scale / m))
                    return Pulse(a, ConstantWaveform(D, 0.0), 0.0), a, None
                if lim == "max_det":
                    dwf = make_wf(peak_spec(wk if wk in DET_KINDS else "constant", D, p["max_det"] * scale))
                    return Pulse(ConstantWaveform(D, 1.0), dwf, 0.0), None, dwf
                dwf = make_wf(peak_spec(wk if wk in DET_KINDS else "constant", D, -10.0 * scale))
                return dwf, None, dwf

            try:
                first, fa, fd = mk(1.0)
                second, sa, sd = mk(1.0 + rel)
            except Exception:
                return [("@unbuildable", "")]
            dmm = (-10.0, None, [1.0, 1.0, 1.0]) if lim == "dmm_bottom" else None
            w = _world(p, bottom_det=-10.0) if dmm else _world(p)
            seq = w.fresh()
            seq.declare_channel("g", "rydberg_global")
            if dmm:
                seq.config_detuning_map(w.register.define_detuning_map(dict(WEIGHTS["w1"])), "dmm_0")
            samp = lambda wf, n: np.zeros(n) if wf is None else np.asarray(wf.samples.as_array(detach=True))
            verdict, why = inside(samp(sa, D) if dmm is None else np.zeros(D), samp(sd, D), D,
                                  dict(p, max_amp=None, max_det=None) if dmm else p, dmm)
            if dmm is None and sa is None:
                verdict, why = inside(np.ones(D), samp(sd, D), D, p)
            try:
                seq.add_dmm_detuning(first, "dmm_0") if dmm else seq.add(first, "g")
            except Exception:
                return [("@twin-first-refused", "")]
            try:
                seq.add_dmm_detuning(second, "dmm_0") if dmm else seq.add(second, "g")
                ok = True
            except Exception:
                ok = False
            if verdict is False and ok:
                return [(f"C01:invalid-pulse-accepted-after-its-valid-twin:{why}", f"{wk} at {1 + rel:.7f} x the {lim} limit, right after the same pulse at the limit ({D} ns) on {p}")]
            if verdict is True and not ok:
                return [(f"C01:valid-pulse-refused-after-its-twin:{lim}", f"{wk} at {1 + rel:.7f} x the limit after the pulse at the limit")]
            return [("@twin:" + ("accepted" if ok else "refused") + ":" + str(verdict), "")]
        if kind == "alias":
            _, p, wk, edit = case
            from pulser import Pulse

            try:
                awf, dwf = make_wf(peak_spec(wk, 100, 5.0)), make_wf(peak_spec(wk if wk in DET_KINDS else "ramp", 100, -10.0))
                pulse = Pulse(awf, dwf, 0.0)
            except Exception:
                return [("@unbuildable", "")]
            w = _world(p)
            seq = w.fresh()
            seq.declare_channel("g", "rydberg_global")
            try:
                seq.add(pulse, "g")
            except Exception:
                return [("@refused:alias", "")]
            before = _sched_pulses(seq, "g")[-1]
            a0, d0 = np.array(before.pulse.amp, copy=True), np.array(before.pulse.det, copy=True)
            touched = 0
            for wf in (pulse.amplitude, pulse.detuning, seq._schedule["g"].slots[-1].type.amplitude):
                for get in (lambda x: x.samples, lambda x: x.samples.as_array(), lambda x: np.asarray(x.samples.as_array(detach=True))):
                    try:
                        arr = get(wf)
                        if edit == "scale":
                            arr *= 7.5
                        elif edit == "nan":
                            arr[len(arr) // 2] = float("nan")
                        else:
                            arr[:] = 0.0
                        touched += 1
                    except Exception:
                        pass  # a read-only or immutable view is fine
            try:
                seq.add(Pulse.ConstantPulse(52, 1.0, 0.0, 0.0), "g")
            except Exception:
                pass
            after = _sched_pulses(seq, "g")[0]
            if not (np.array_equal(after.pulse.amp, a0, equal_nan=False) and np.array_equal(after.pulse.det, d0, equal_nan=False)):
                v2, why2 = inside(after.pulse.amp, after.pulse.det, after.tf - after.ti, p)
                return [(f"C01:scheduled-pulse-follows-the-callers-edits-of-arrays-it-read:{wk}:{edit}",
                         f"after editing the arrays read from the accepted pulse in place the scheduled pulse changed (now {'outside: ' + why2 if v2 is False else 'still inside'} the limits)")]
            return [("@alias:" + ("edited" if touched else "immutable"), "")]
        if kind == "add-avg":
            _, p, ak, delta, D = case
            from pulser import Pulse
            from pulser.waveforms import ConstantWaveform

            try:
                m = float(np.mean(np.asarray(make_wf(peak_spec(ak, D, 1.0)).samples.as_array(detach=True))))
                amp_wf = make_wf(peak_spec(ak, D, (1.0 + delta) * p["min_avg_amp"] / m))
                pulse = Pulse(amp_wf, ConstantWaveform(D, 0.0), 0.0)
            except Exception:
                return [("@unbuildable", "")]
            w = _world(p)
            seq = w.fresh()
            seq.declare_channel("g", "rydberg_global")
            try:
                seq.add(pulse, "g")
            except Exception:
                return [("@refused:avg", "")]
            sp = _sched_pulses(seq, "g")[-1]
            v2, why2 = inside(sp.pulse.amp, sp.pulse.det, sp.tf - sp.ti, p)
            if v2 is False:
                return [(f"C01:scheduled-pulse-outside-limits:{why2}", f"{ak} of average {(1.0 + delta) * p['min_avg_amp']:.4g} at {D} ns, scheduled with "
                         f"{sp.tf - sp.ti} ns and average {float(np.mean(sp.pulse.amp)):.4g} (minimum average {p['min_avg_amp']}) on {p}")]
            return [("@accepted:avg", "")]
        if kind == "add_dmm":
            _, p, (bottom, total, wkey), (_, dk, d), D = case
            try:
                det_wf = make_wf(peak_spec(dk, D, d))
            except Exception:
                return [("@unbuildable", "")]
            pd = np.asarray(det_wf.samples.as_array(detach=True))
            wts = WEIGHTS[wkey]
            verdict, why = inside(np.zeros(D), pd, D, dict(p, max_amp=None, max_det=None), dmm=(bottom, total, list(wts.values())))
            w = _world(p, bottom_det=bottom, total_bottom_det=total)
            seq = w.fresh()
            seq.declare_channel("g", "rydberg_global")
            seq.config_detuning_map(w.register.define_detuning_map(dict(wts)), "dmm_0")
            try:
                seq.add_dmm_detuning(det_wf, "dmm_0")
                ok, err = True, None
            except Exception as e:
                ok, err = False, e
            if verdict is True and not ok:
                out.append((f"C01:valid-dmm-pulse-refused:{dk}", f"{type(err).__name__}: {err} (det {d}, weights {wkey}, bottom {bottom}, total {total})"[:300]))
            elif verdict is False and ok:
                out.append((f"C01:invalid-dmm-pulse-accepted:{why}", f"{dk} det {d}, weights {wkey}, bottom {bottom}, total {total}"))
            return out + [("@" + ("accepted" if ok else "refused") + ":" + why, "")]
        if kind == "eom":
            _, p, a, d, D = case
            w = _world(p, bw=8, eom={})
            seq = w.fresh()
            seq.declare_channel("g", "rydberg_global")
            v_on, why = inside(np.full(16, a), np.full(16, d), 16, dict(p, max_dur=None, min_dur=1, clock=1))
            try:
                seq.enable_eom_mode("g", a, d, optimal_detuning_off=0.0)
                ok, err = True, None
            except Exception as e:
                ok, err = False, e
            if ok:
                blk = seq._schedule["g"].eom_blocks[-1]
                off = float(blk.detuning_off)
                v_off, why_off = inside(np.zeros(16), np.full(16, off), 16, dict(p, max_dur=None, min_dur=1, clock=1))
                if v_on is False or v_off is False:
                    out.append((f"C01:invalid-eom-setpoint-accepted:{why if v_on is False else 'off-' + why_off}", f"amp_on {a}, det_on {d}, det_off {off} on {p}"))
                vD, whyD = inside(np.full(max(D, 1), a), np.full(max(D, 1), d), D, p)
                try:
                    seq.add_eom_pulse("g", D, 0.0)
                    okp, errp = True, None
                except Exception as e:
                    okp, errp = False, e
                if vD is True and not okp:
                    out.append(("C01:valid-eom-pulse-refused", f"duration {D}: {errp!r}"[:200]))
                elif vD is False and okp:
                    out.append((f"C01:invalid-eom-pulse-accepted:{whyD}", f"duration {D} on {p}"))
                elif okp:
                    for s in _sched_pulses(seq, "g"):
                        v2, why2 = inside(s.pulse.amp, s.pulse.det, s.tf - s.ti, dict(p, min_avg_amp=0))
                        if v2 is False:
                            out.append((f"C01:scheduled-eom-slot-outside-limits:{why2}", f"{s.brief()} on {p}"))
                return out + [("@eom-accepted" + (":pulse" if okp else ""), "")]
            if v_on is True:
                # the off-detuning may still be out of range: decide with the independent option computation
                from mc.props.c15 import options_independent
                from mc.worlds import EOM_DEFAULT

                offs = [o for o, _ in options_independent(dict(EOM_DEFAULT), a, d)] if a > 0 else [d]
                off = min(offs, key=lambda x: abs(x))
                v_off, _ = inside(np.zeros(16), np.full(16, off), 16, dict(p, max_dur=None, min_dur=1, clock=1))
                if v_off is True:
                    out.append(("C01:valid-eom-setpoint-refused", f"amp_on {a}, det_on {d}: {err!r}"[:200]))
            return out + [("@eom-refused", "")]
        if kind == "slm":
            _, p, (bottom, total), a, nmask = case
            w = _world(p, bottom_det=bottom, total_bottom_det=total)
            seq = w.fresh()
            qs = w.qids[:nmask]
            try:
                seq.config_slm_mask(qs)
                seq.declare_channel("g", "rydberg_global")
                seq.add(make_pulse(["c", 52, a, 0.0, 0.0]), "g")
            except Exception as e:
                return [("C01:slm-mask-pulse-refused", f"{e!r} (amp {a}, masked {nmask}, bottom {bottom}, total {total})"[:250])]
            name = seq._slm_mask_dmm
            wts = [1.0] * nmask
            for s in _sched_pulses(seq, name):
                v2, why2 = inside(s.pulse.amp, s.pulse.det, s.tf - s.ti, dict(p, max_amp=None, max_det=None), dmm=(bottom, total, wts))
                if v2 is False:
                    out.append((f"C01:slm-mask-pulse-outside-limits:{why2}", f"det {s.pulse.det[0]} with {nmask} masked atoms, bottom {bottom}, total {total}"))
            return out + [("@slm", "")]
    return out


def _same_params(spec, Dn):
    s = list(spec)
    if s[0] in ("C", "R", "B", "K", "I"):
        s[1] = Dn
        return s
    raise NotImplementedError


# ---- (b) SeqX monitor ------------------------------------------------------------------------------
def limits(ctx):
    out = []
    snap, w = ctx.post, ctx.world
    k = ctx.op[0]
    for name, ch in snap.channels.items():
        p = w.params(ch.ch_id)
        dmm = None
        if ch.is_dmm:
            dmm = (w.spec.get("bottom_det"), w.spec.get("total_bottom_det"), list(ch.detmap[1]))
            p = dict(p, max_amp=None, max_det=None)
        for s in ch.slots:
            if s.kind != "pulse":
                continue
            ctx.act["slots_checked"] += 1
            pp = dict(p, min_avg_amp=0) if s.pulse.detuned_delay or s.in_eom else p
            v, why = inside(s.pulse.amp, s.pulse.det, s.tf - s.ti, pp, dmm)
            if v is False:
                out.append((f"C01:scheduled-slot-outside-limits:{why}:{k}", f"{name}: {s.brief()}"))
    mx = w.spec.get("max_seq")
    if mx is not None and snap.channels:
        ctx.act["sequence_duration_checked"] += 1
        end = max(c.end for c in snap.channels.values())
        if end > mx - 60:
            ctx.act["sequence_near_max_duration"] += 1
        if end > mx:
            out.append((f"C01:sequence-longer-than-device-maximum:{k}", f"{end} > {mx}"))
    return out


_WCACHE = {}


def _limited_world(spec, mx):
    key = (spec.get("name"), mx)
    if key not in _WCACHE:
        if len(_WCACHE) > 400:
            _WCACHE.clear()
        _WCACHE[key] = World(dict(spec, max_seq=mx))
    return _WCACHE[key]


def device_max_boundary(ctx):
    """For every accepted transition that lengthens the sequence to E (on a device without a maximum): the same call
    on the same history must be accepted when max_sequence_duration == E and refused when it is E - 1."""
    if ctx.exc is not None or ctx.world.spec.get("max_seq") is not None or not ctx.post.channels:
        return []
    e0 = max([c.end for c in ctx.pre.channels.values()] + [0])
    e1 = max(c.end for c in ctx.post.channels.values())
    if e1 <= e0:
        return []
    out = []
    ctx.act["device_max_boundaries"] += 1
    for mx, want in ((e1, True), (e1 - 1, False)):
        w = _limited_world(ctx.world.spec, mx)
        seq = w.fresh()
        try:
            with warnings.catch_warnings():
                warnings.simplefilter("ignore")
                for h in ctx.history:
                    apply(seq, h, w)
        except Exception:
            continue  # the history itself does not fit (cannot happen for mx >= e0)
        try:
            with warnings.catch_warnings():
                warnings.simplefilter("ignore")
                apply(seq, ctx.op, w)
            ok = True
        except Exception:
            ok = False
        end = max([cs.slots[-1].tf for cs in seq._schedule.values() if cs.slots] + [0])
        if ok and end > mx:
            out.append((f"C01:sequence-longer-than-device-maximum:{ctx.op[0]}", f"maximum {mx}: call accepted, sequence lasts {end}"))
        elif ok != want:
            out.append((f"C01:device-maximum-boundary:{'refused-at-limit' if want else 'accepted-over-limit'}:{ctx.op[0]}",
                        f"the call brings the sequence to {e1} ns; with max_sequence_duration={mx} it was {'accepted' if ok else 'refused'}"))
    return out


MONITORS = [limits]
LIM = dict(max_amp=1.5, max_det=20.0, max_dur=104, bottom_det=-10.0, total_bottom_det=-15.0, max_seq=160)


def run(tier, seed):
    res = Result("exploration")
    alpha = A.timing(dmm=True) + [("add", ["c", 52, 1.5 + EPS, 0.0, 0.0], "g"), ("add", ["c", 101, 1.0, 0.0, 0.0], "l"),
                                 ("add", ["c", 52, 1.0, 20.0 + EPS, 0.0], "l"), ("slm", ["q0"], "dmm_1"),
                                 ("add_dmm", ["C", 52, -10.0 - EPS], "dmm_0"), ("enable_eom", "g", 1.5 + EPS, 0.0, 0.0, False)]
    plan = [
        (corner("real", prefix=A.GLD, name="real-limits", **LIM), alpha, 2 if tier == "quick" else 3),
        (corner("awk", prefix=A.GL, name="awk-limits", **LIM), A.timing(), 3 if tier == "quick" else 4),
        # two detuning maps on ONE DMM id (reusable device): each channel is judged with its own map (largest weight 0.75 vs 1.0)
        (corner("real", prefix=[("declare", "g", "rydberg_global"), ("config_dmm", "m2", "dmm_0"), ("config_dmm", "m1", "dmm_0")],
                name="real-two-maps-on-one-dmm-id", **LIM),
         [("add_dmm", ["C", 52, d], ch, pr) for d in (-9.0, -10.0, -11.0, -13.0, -13.4, -15.0, -16.0) for ch in ("dmm_0", "dmm_0_1")
          for pr in ("no-delay",)] + [("add", A.C52, "g"), ("add_dmm", ["R", 60, -13.0, 0.0], "dmm_0_1", "min-delay"), ("delay", 16, "dmm_0_1")], 2),
        # the SLM mask's automatic DMM pulse copies its duration from the first Global pulse: the DMM has its OWN clock / minimum /
        # maximum duration (1 ns clock on the Global channel, 4 / 16 / 100 on the DMM)
        (corner("unit", prefix=[("slm", ["q0"], "dmm_0")] + A.GL, over={"dmm": dict(clock=4, min_dur=16, max_dur=100)},
                name="unit-slm-mask-on-a-dmm-with-its-own-clock", **{k: v for k, v in LIM.items() if k not in ("max_dur", "max_seq")}),
         [("add", ["c", d, 1.0, 0.0, 0.0], "g") for d in (50, 10, 200, 52, 100, 101, 15, 16)] + [("delay", 16, "g"), ("add", A.C52, "l"),
                                                                                               ("add_dmm", ["C", 52, -1.0], "dmm_0")], 2),
    ]
    cov = seqx.run_plan(res, plan, MONITORS)
    nolim = {k: v for k, v in LIM.items() if k != "max_seq"}
    plan2 = [
        (corner("real", prefix=A.GLD, name="real-nomax", **nolim), A.timing(dmm=True, faults=False), 2 if tier == "quick" else 3),
        (corner("awk", prefix=A.GL, name="awk-nomax", **nolim), A.timing(faults=False), 3 if tier == "quick" else 4),
    ]
    res2 = Result("exploration")
    cov2 = seqx.run_plan(res2, plan2, [device_max_boundary])
    res.violations += res2.violations
    for k, v in res2.activations.items():
        res.activations[k] = res.activations.get(k, 0) + v
    cov["boundary_transitions"] = cov2["transitions"]
    cov["transitions"] += cov2["transitions"]
    cov["states"] += cov2["states"]
    cases = grid_cases(tier)
    outs = gridx.run(grid_case, cases)
    classes = {}
    n_viol = 0
    for case, r in zip(cases, outs):
        for fp, desc in r:
            if fp.startswith("@"):
                classes[fp] = classes.get(fp, 0) + 1
            else:
                n_viol += 1
                res.add(Violation(fp, desc, {"engine": "grid", "case": list(case)}))
    cov["evaluations"] = len(cases) + cov["transitions"]
    cov["distinct_nontrivial"] = len(cases) - classes.get("@unbuildable", 0)
    cov["grid_cases"] = len(cases)
    cov["grid_outcome_classes"] = dict(sorted(classes.items()))
    cov["samples"] = cov.get("samples", []) + [list(map(str, cases[i])) for i in (0, len(cases) // 2, len(cases) - 1)]
    cov["rule"] = ("grid: full products per limit group (amplitude, detuning, duration, crossing, DMM, EOM, SLM) of channel "
                   "configurations x pulses with values at / just inside / just outside each limit and degenerate values; every "
                   "case is within one grid step of a limit by construction (non-trivial unless the pulse cannot even be built); "
                   "monitor: every pulse slot of every explored state")
    res.coverage = cov
    res.required_activations = ["slots_checked", "sequence_near_max_duration", "device_max_boundaries"]
    res.assumptions = ["values within 1e-6 of a detuning limit are a don't-care band (documented 6-decimal rounding)",
                       "a non-clock-multiple duration on a custom / composite waveform may be refused",
                       "waveform samples are those the waveform classes produce (decided by C16)"]
    return res


def replay(payload):
    if payload.get("world", {}).get("name", "").endswith("-nomax"):
        return seqx.replay(payload, [device_max_boundary])
    if payload.get("engine") == "grid":
        case = payload["case"]
        case = tuple(tuple(x) if isinstance(x, list) and i in (2, 3) else x for i, x in enumerate(case))
        return [Violation(fp, d, payload) for fp, d in grid_case(case) if not fp.startswith("@")]
    return seqx.replay(payload, MONITORS)
