"""C19 — layouts number traps canonically; registers, maps and layouts agree (exhaustive permutations of small coordinate sets)."""
from __future__ import annotations

import itertools
import math
import warnings

import numpy as np

from mc import gridx
from mc.evidence import Result, Violation

V = [-1.0, -1e-9, 0.0, 1.0, 1.0 + 4e-7, 1.0 + 6e-7, 2.0]


def point_sets(tier):
    sets = []
    p2 = [(x, y) for x in V for y in (0.0, 1.0, -1e-9)]
    p3 = [(x, y, z) for x in (0.0, 1.0, 1.0 + 4e-7) for y in (0.0, 1.0) for z in (-1.0, 0.0, 2.0)]
    kmax = 3
    for pts in (p2, p3):
        for k in range(1, kmax + 1):
            for c in itertools.combinations(pts, k):
                sets.append(c)
    # larger sets, all permutations: stacked planes (ties in x,y), a row with near-coincident x, a 5-point set
    sets.append(((0.0, 0.0, 5.0), (0.0, 0.0, 0.0), (0.0, 0.0, 10.0), (1.0, 0.0, 0.0)))
    sets.append(((0.0, 1.0, 1.0), (0.0, 1.0, -1.0), (0.0, 0.0, 3.0), (0.0, 0.0, -3.0)))
    sets.append(((1.0, 0.0), (1.0 + 6e-7, -1.0), (0.0, 2.0), (2.0, -1e-9)))
    sets.append(((2.0, 1.0), (-1.0, 1.0), (0.0, 0.0), (0.0, -1.0), (1.0, 5.0)))
    sets.append(((0.0, 0.0, 1.0), (0.0, 0.0, 0.0), (1.0, 1.0, 1.0), (1.0, 1.0, 0.0), (0.0, 1.0, 0.0)))
    if tier == "thorough":
        for c in itertools.combinations(p2[:14], 4):
            sets.append(c)
    return sets


def canon(points):
    r = [tuple(round(v, 6) + 0.0 for v in p) for p in points]
    return sorted(r)


def coincide(points):
    r = [tuple(round(v, 6) + 0.0 for v in p) for p in points]
    return len(set(r)) < len(r)


def check_set(points):
    from pulser.register.mappable_reg import MappableRegister
    from pulser.register.register_layout import RegisterLayout
    from pulser.register.weight_maps import DetuningMap

    out = []
    n = len(points)
    dim = len(points[0])
    tag = f"{dim}d"
    if coincide(points):
        try:
            with warnings.catch_warnings():
                warnings.simplefilter("ignore")
                L = RegisterLayout(list(points))
        except ValueError:
            return [("@coincident-refused", "")]
        td = L.traps_dict
        coords = [tuple(np.asarray(c).tolist()) for c in td.values()]
        if len(set(coords)) < len(coords):
            return [(f"C19:coincident-after-rounding-accepted:{tag}", f"{points}: two trap ids on one rounded coordinate {coords}")]
        return [("@coincident-handled", "")]
    ref = canon(points)
    weights_by_point = {p: round(0.1 + 0.8 * i / max(1, n - 1), 6) for i, p in enumerate(points)}
    weights_by_point[points[0]] = 0.0  # a zero weight
    base = None
    for perm in itertools.permutations(points):
        with warnings.catch_warnings():
            warnings.simplefilter("ignore")
            L = RegisterLayout(list(perm))
            td = L.traps_dict
            got = [tuple(float(v) + 0.0 for v in np.asarray(td[i])) for i in range(n)]
            if got != ref or L.number_of_traps != n:
                out.append((f"C19:trap-numbering:{tag}", f"given {perm}: ids map to {got}, canonical {ref}"))
                continue
            if base is None:
                base = L
            else:
                if not (L == base and base == L):
                    out.append((f"C19:layout-equality-order-dependent:{tag}", f"{perm}"))
                if L.static_hash() != base.static_hash() or hash(L) != hash(base):
                    out.append((f"C19:layout-hash-order-dependent:{tag}", f"{perm}"))
            # detuning map given in the same (permuted) order
            ws = [weights_by_point[p] for p in perm]
            dm = DetuningMap(list(perm), ws)
            sw = [float(x) for x in dm.sorted_weights]
            exp_sw = [weights_by_point[p] for p in sorted(points, key=lambda q: tuple(round(v, 6) + 0.0 for v in q))]
            if sw != exp_sw:
                out.append((f"C19:sorted-weights:{tag}", f"given {perm}: {sw} vs {exp_sw}"))
            qubits = {f"a{i}": np.array(p) for i, p in enumerate(points)}
            qubits["far"] = np.array([50.0] * dim)
            wm = dm.get_qubit_weight_map(qubits)
            for i, p in enumerate(points):
                if not math.isclose(wm[f"a{i}"], weights_by_point[p], abs_tol=1e-12):
                    out.append((f"C19:qubit-weight:{tag}", f"given {perm}: qubit at {p} gets {wm[f'a{i}']}, trap weight {weights_by_point[p]}"))
            if wm["far"] != 0:
                out.append((f"C19:qubit-weight-off-trap:{tag}", f"{wm['far']}"))
            # positions coming from ANOTHER array: displaced by less than the rounding precision (both signs, so that a zero
            # coordinate is reached from below as -0.0) still sit on the trap; displaced by more they do not
            for sgn in (1.0, -1.0):
                near = {f"n{i}": np.array([np.round(v, 6) + sgn * 4e-7 for v in p]) for i, p in enumerate(points)}
                wn = dm.get_qubit_weight_map(near)
                for i, p in enumerate(points):
                    if not math.isclose(wn[f"n{i}"], weights_by_point[p], abs_tol=1e-12):
                        out.append((f"C19:qubit-weight-near-trap:{tag}", f"qubit {sgn * 4e-7:+.0e} from the trap at {p} gets {wn[f'n{i}']}, trap weight {weights_by_point[p]}"))
                away = {f"w{i}": np.array([np.round(v, 6) + sgn * 3e-6 for v in p]) for i, p in enumerate(points)}
                wa = dm.get_qubit_weight_map(away)
                others = {tuple(np.round(q, 6) + 0.0) for q in points}
                for i, p in enumerate(points):
                    if tuple(np.round(away[f"w{i}"], 6) + 0.0) not in others and wa[f"w{i}"] != 0:
                        out.append((f"C19:qubit-weight-off-trap:{tag}", f"qubit {sgn * 3e-6:+.0e} from the trap at {p} gets {wa[f'w{i}']}"))
            if base is not L and dm != DetuningMap(list(points), [weights_by_point[p] for p in points]):
                out.append((f"C19:detuning-map-equality-order-dependent:{tag}", f"{perm}"))
    if base is None:
        return out
    L = base
    # what is NOT the id of a trap of this layout is refused (negative numbers, n, n+1, a repeated id) - also through a mappable register
    from pulser.register.mappable_reg import MappableRegister

    for bad in [(-1,), (-n,), (n,), (n + 1,), (0, -1), (0, 0)] + ([(0, n - 1, -n)] if n >= 2 else []):
        try:
            r = L.define_register(*bad)
            out.append((f"C19:invalid-trap-id-accepted:{tag}", f"define_register{bad} on {n} traps gave qubits at {[tuple(np.asarray(v.as_array() if hasattr(v, 'as_array') else v).tolist()) for v in r.qubits.values()]}"))
        except (ValueError, TypeError, IndexError, KeyError):
            pass
        if len(set(bad)) == len(bad):
            try:
                mr = MappableRegister(L, *[f"m{j}" for j in range(len(bad))])
                mr.build_register({f"m{j}": t for j, t in enumerate(bad)})
                out.append((f"C19:invalid-trap-id-accepted:mappable:{tag}", f"build_register with trap ids {bad} on {n} traps"))
            except (ValueError, TypeError, IndexError, KeyError):
                pass
    # registers from trap ids: every ordered selection of <= 3 traps
    for k in range(1, min(3, n) + 1):
        for sel in itertools.permutations(range(n), k):
            qids = [f"u{j}" for j in range(k)][::-1]  # ids deliberately not in sorted order
            reg = L.define_register(*sel, qubit_ids=qids)
            if list(reg.qubit_ids) != qids:
                out.append((f"C19:register-id-order:{tag}", f"{sel}: {reg.qubit_ids}"))
            for q, t in zip(qids, sel):
                pos = tuple(float(v) + 0.0 for v in np.asarray(reg.qubits[q].as_array(detach=True) if hasattr(reg.qubits[q], "as_array") else reg.qubits[q]))
                if pos != ref[t]:
                    out.append((f"C19:register-position:{tag}", f"qubit {q} on trap {t}: {pos} vs {ref[t]}"))
            back = L.get_traps_from_coordinates(*[ref[t] for t in sel])
            if list(back) != list(sel):
                out.append((f"C19:traps-from-coordinates:{tag}", f"{sel} -> {back}"))
            # the register constructor given layout= and trap_ids= directly: every ordering of the RIGHT set of ids that is not the
            # qubits' own pairing must be refused (or the register must carry the ids its qubits really sit on)
            if k >= 2:
                qd = {q: reg.qubits[q] for q in qids}
                for perm_ids in itertools.permutations(sel):
                    try:
                        r3 = type(reg)(qd, layout=L, trap_ids=perm_ids)
                    except (ValueError, TypeError):
                        if perm_ids == tuple(sel):
                            out.append((f"C19:register-with-its-own-trap-ids-refused:{tag}", f"{sel}"))
                        continue
                    carried = tuple(r3._layout_info.trap_ids) if getattr(r3, "_layout_info", None) is not None else None
                    if carried != tuple(sel):
                        out.append((f"C19:register-accepted-with-trap-ids-it-does-not-sit-on:{tag}", f"qubits on traps {sel}, constructed with trap_ids={perm_ids}, carries {carried}"))
            # raw (unrounded) coordinates must resolve to the same traps
            raw_by_ref = {tuple(round(v, 6) + 0.0 for v in p): p for p in points}
            back2 = L.get_traps_from_coordinates(*[raw_by_ref[ref[t]] for t in sel])
            if list(back2) != list(sel):
                out.append((f"C19:traps-from-raw-coordinates:{tag}", f"{sel} -> {back2}"))
            # mappable register: declared order c, a, b (not sorted); map the first k ids
            decl = ["c", "a", "b"][: max(k, 1)] + ["z"] * 0
            mr = MappableRegister(L, *decl[:k], *[f"x{j}" for j in range(n - k)][: n - k])
            for order in itertools.permutations(range(k)):
                mapping = {decl[i]: sel[i] for i in order}  # insertion order varies
                r2 = mr.build_register(mapping)
                if list(r2.qubit_ids) != decl[:k]:
                    out.append((f"C19:mappable-declared-order:{tag}", f"mapping given as {list(mapping)}: register order {r2.qubit_ids}"))
                for i in range(k):
                    pos = tuple(float(v) + 0.0 for v in np.asarray(r2.qubits[decl[i]].as_array(detach=True) if hasattr(r2.qubits[decl[i]], "as_array") else r2.qubits[decl[i]]))
                    if pos != ref[sel[i]]:
                        out.append((f"C19:mappable-position:{tag}", f"{decl[i]} -> trap {sel[i]}: {pos}"))
                if mr.find_indices(decl[:k][::-1]) != list(range(k))[::-1]:
                    out.append((f"C19:find-indices:{tag}", ""))
    return out



# ---- layout objects under histories of accesses ---------------------------------------------------------------------
# A layout / detuning map is a frozen, hashable value.  Every history of <= DEPTH steps over the menu below is run on ONE
# object built from a caller-owned array; after every step the object must still be indistinguishable from a pristine
# object built from a copy of the original coordinates (trap ids, hash, equality, registers defined from ids, coordinate
# lookups, detuning-map weights).  Steps are uses of the public API, and a caller editing what it owns: its own
# constructor argument and the containers / arrays the accessors handed out.
H_BASE = {
    "2d": [(5.0, 5.0), (0.0, 0.0), (5.0, 0.0), (0.0, 5.0), (10.0, 5.0)],
    "3d": [(5.0, 5.0, 1.0), (0.0, 0.0, 0.0), (5.0, 0.0, -2.0), (0.0, 5.0, 3.0)],
}
H_OPS = ["edit-input", "edit-input-list", "td-edit-value", "td-pop", "coords-edit", "sorted-coords-edit", "hash", "lookup", "define-register",
         "edit-register-qubits", "define-detmap", "detmap-edit-weights", "eq-ref"]


def hist_cases(tier):
    depth = 3 if tier == "quick" else 4
    out = []
    for kind in ("2d", "3d"):
        for src in ("array", "list"):
            for d in range(1, depth + 1):
                for h in itertools.product(range(len(H_OPS)), repeat=d):
                    names = [H_OPS[i] for i in h]
                    if src == "array" and "edit-input-list" in names or src == "list" and "edit-input" in names:
                        continue
                    out.append(("hist", kind, src, h))
    return out


def _facts(L, base):
    """Everything the property speaks about, read through the public API."""
    import numpy as np
    from pulser.register.register_layout import RegisterLayout

    f = {}
    td = L.traps_dict
    f["traps_dict"] = tuple((k, tuple(np.asarray(v, dtype=float).tolist())) for k, v in sorted(td.items()))
    f["hash"] = L.static_hash()
    f["n"] = L.number_of_traps
    try:
        f["lookup"] = tuple(L.get_traps_from_coordinates(*[np.array(c) for c in base]))
    except Exception as e:
        f["lookup"] = f"raises {type(e).__name__}"
    try:
        ids = list(range(min(3, L.number_of_traps)))[::-1]
        reg = L.define_register(*ids, qubit_ids=["c", "a", "b"][: len(ids)])
        f["register"] = tuple((q, tuple(np.asarray(p.as_array() if hasattr(p, "as_array") else p, dtype=float).tolist())) for q, p in reg.qubits.items())
        dm = L.define_detuning_map({0: 0.25, L.number_of_traps - 1: 0.75})
        f["detmap"] = tuple(sorted((q, w) for q, w in dm.get_qubit_weight_map(reg.qubits).items()))
    except Exception as e:
        f["register"] = f"raises {type(e).__name__}: {e}"[:80]
    return f


def check_hist(kind, src, h):
    import numpy as np
    from pulser.register.register_layout import RegisterLayout

    base = H_BASE[kind]
    ref = RegisterLayout([tuple(c) for c in base], slug="S")
    want = _facts(ref, base)
    arg = np.array(base, dtype=float) if src == "array" else [list(c) for c in base]
    L = RegisterLayout(arg, slug="S")
    held = {}
    out = []
    names = [H_OPS[i] for i in h]
    for step_no, name in enumerate(names):
        try:
            if name == "edit-input":
                arg[0] += 2.5
            elif name == "edit-input-list":
                arg[0][0] += 2.5
                arg.append([99.0] * len(base[0]))
            elif name == "td-edit-value":
                d = L.traps_dict
                d[1][0] += 2.5
            elif name == "td-pop":
                d = L.traps_dict
                d.pop(2)
                d.pop(0)
            elif name == "coords-edit":
                c = L.coords
                c[0] += 1.0
            elif name == "sorted-coords-edit":
                c = L.sorted_coords
                c[:] = 0.0
            elif name == "hash":
                L.static_hash()
                hash(L)
            elif name == "lookup":
                L.get_traps_from_coordinates(np.array(base[0]))
            elif name == "define-register":
                held["reg"] = L.define_register(0, 1, qubit_ids=["x", "y"])
            elif name == "edit-register-qubits":
                if "reg" in held:
                    q = held["reg"].qubits
                    for v in q.values():
                        try:
                            np.asarray(v.as_array() if hasattr(v, "as_array") else v)[...] += 1.0
                        except Exception:
                            pass
            elif name == "define-detmap":
                held["dm"] = L.define_detuning_map({0: 0.5, 1: 0.5})
            elif name == "detmap-edit-weights":
                if "dm" in held:
                    w = held["dm"].weights
                    try:
                        w[0] = 0.9
                    except Exception:
                        pass
                    sw = held["dm"].sorted_weights
                    sw[...] = 0.0
                    if dict(held["dm"].get_qubit_weight_map({"p": base[1]})) != {"p": 0.5}:
                        # base[1] sorts first in both menus (the origin): weight of trap 0
                        out.append(("C19:object-history:detuning-map-changed:" + "+".join(sorted(set(names[: step_no + 1]))),
                                    f"{kind}/{src} after {names[: step_no + 1]}"))
            elif name == "eq-ref":
                L == ref
        except Exception as e:
            out.append((f"C19:object-history:step-raises:{name}:{type(e).__name__}", f"{kind}/{src} after {names[:step_no]}: {e}"[:200]))
            break
        got = _facts(L, base)
        bad = sorted(k for k in want if got.get(k) != want[k])
        if (L == ref) is not True or (ref == L) is not True:
            bad.append("equality")
        if bad:
            culprit = ("edit-input+" if any(n.startswith("edit-input") for n in names[: step_no + 1]) and not name.startswith("edit-input") else "") + name
            out.append((f"C19:object-history:{'+'.join(bad)}:after:{culprit}",
                        f"{kind} layout built from a caller-owned {src}; after {names[: step_no + 1]} it differs from a pristine layout of the "
                        f"same coordinates in {bad}: e.g. traps_dict {got['traps_dict'][:2]} vs {want['traps_dict'][:2]}"[:400]))
            break
    return out + [("@hist", "")]


# ---- coordinates exactly half way between two 1e-6 grid points ------------------------------------------------------------------
# Which neighbour such a coordinate is rounded to is not specified; what the statement needs is that every part of the library
# rounds it the SAME way: the trap built from a coordinate is found again by that coordinate, registers and weights follow.
TIES = [3.5e-06, 4.5e-06, 1.25e-05, 0.1029475, 2.0000005, 7.3000015]


def tie_cases(tier):
    out = []
    for dim in (2, 3):
        for a, b in itertools.permutations(TIES, 2):
            pts = [(a, 0.0), (b, 3.0), (a + 2e-6, 6.0), (-a, 9.0), (5.0, b)]
            if dim == 3:
                pts = [p + (a if i % 2 else -b,) for i, p in enumerate(pts)]
            out.append(("ties", tuple(pts)))
    return out


def check_ties(points):
    from pulser.register.register_layout import RegisterLayout
    from pulser.register.weight_maps import DetuningMap

    dim = "3d" if len(points[0]) == 3 else "2d"
    out = []
    ids_by_order = []
    for order in (list(range(len(points))), list(range(len(points)))[::-1]):
        pts = [points[i] for i in order]
        try:
            L = RegisterLayout([list(p) for p in pts])
        except Exception as e:
            return gridx.crash_finding(e, "building-a-layout", f"{pts}") or [(f"C19:tie-layout-refused:{dim}", f"{pts}: {e}"[:200])]
        coords = {i: tuple(float(v) for v in c) for i, c in L.traps_dict.items()}
        found = {}
        for p in pts:
            try:
                t = L.get_traps_from_coordinates(p)[0]
            except Exception as e:
                out.append((f"C19:tie-coordinate-not-found-in-its-own-layout:{dim}", f"{p} of layout {pts}: {e}"[:220]))
                continue
            found[p] = t
            if max(abs(a - b) for a, b in zip(p, coords[t])) > 1.0000001e-6:
                out.append((f"C19:tie-coordinate-resolves-to-another-trap:{dim}", f"{p} -> trap {t} at {coords[t]}"))
        if len(set(found.values())) != len(found):
            out.append((f"C19:tie-coordinates-share-a-trap:{dim}", f"{found}"))
        if len(found) == len(pts):
            sel = [found[p] for p in pts]
            reg = L.define_register(*sel, qubit_ids=[f"a{i}" for i in range(len(sel))])
            xy = _reg_xy(reg)
            if list(L.get_traps_from_coordinates(*xy)) != sel:
                out.append((f"C19:tie-register-lookup:{dim}", f"{sel} -> {list(L.get_traps_from_coordinates(*xy))}"))
            wts = [0.1 * (i + 1) for i in range(len(pts))]
            dm = DetuningMap([list(p) for p in pts], wts)
            got = dm.get_qubit_weight_map({f"a{i}": np.array(p) for i, p in enumerate(pts)})
            if any(abs(got[f"a{i}"] - wts[i]) > 1e-12 for i in range(len(pts))):
                out.append((f"C19:tie-weight-lookup:{dim}", f"{got} vs {wts}"))
            ids_by_order.append({p: found[p] for p in pts})
    if len(ids_by_order) == 2 and ids_by_order[0] != ids_by_order[1]:
        out.append((f"C19:tie-ids-depend-on-order:{dim}", f"{ids_by_order}"))
    return out + [("@ties", "")]


# ---- the same coordinates in another number type -------------------------------------------------------------------------------
def dtype_cases(tier):
    out = []
    base2 = [(2.1, 0.0), (0.0, 0.7), (5.3, 4.2), (-2.1, 6.3), (8.4, -0.7)]
    exact2 = [(2.0, 0.0), (0.0, 0.5), (5.25, 4.0), (-2.0, 6.5), (8.0, -0.75)]
    for pts in (base2, exact2, [p + (1.3 * i,) for i, p in enumerate(base2)], [p + (0.5 * i,) for i, p in enumerate(exact2)]):
        for dt in ("float32", "float16" if pts is exact2 else "float32", "int" if False else "float64-fortran"):
            out.append(("dtype", tuple(pts), dt))
    out.append(("dtype", ((2.0, 0.0), (0.0, 3.0), (5.0, 4.0), (-2.0, 6.0)), "int"))
    return out


def check_dtype(points, dt):
    """A layout / detuning map is identified by its coordinates (to 1e-6 um): the number type of the array they came in does not
    change trap ids, equality, hashes, look-ups or weights."""
    from pulser.register.register_layout import RegisterLayout
    from pulser.register.weight_maps import DetuningMap

    dim = "3d" if len(points[0]) == 3 else "2d"
    ref = RegisterLayout([list(p) for p in points])
    if dt == "int":
        arr = np.array(points, dtype=int)
    elif dt == "float64-fortran":
        arr = np.asfortranarray(np.array(points, dtype=float))
    else:
        arr = np.array(points, dtype=getattr(np, dt))
    if dt in ("float32", "float16") and np.abs(arr.astype(float) - np.array(points)).max() > 4e-7:
        return [("@not-representable-within-the-rounding", "")]
    out = []
    try:
        L = RegisterLayout(arr)
    except Exception as e:
        return gridx.crash_finding(e, "building-a-layout", f"{dt}") or [(f"C19:layout-from-{dt}-array-refused:{dim}", f"{e}"[:150])]
    if (L == ref) is not True or (ref == L) is not True:
        out.append((f"C19:layout-identity-depends-on-the-number-type:{dt}:equality:{dim}", f"{points}"))
    if hash(L) != hash(ref):
        out.append((f"C19:layout-identity-depends-on-the-number-type:{dt}:hash:{dim}", f"{points}"))
    for meth in ("static_hash", "_safe_hash"):
        if hasattr(L, meth) and getattr(L, meth)() != getattr(ref, meth)():
            out.append((f"C19:layout-identity-depends-on-the-number-type:{dt}:{meth}:{dim}", f"{points}"))
    want = list(ref.get_traps_from_coordinates(*points))
    try:
        got = list(L.get_traps_from_coordinates(*points))
        if got != want:
            out.append((f"C19:trap-ids-depend-on-the-number-type:{dt}:{dim}", f"{got} vs {want}"))
        reg = L.define_register(*want[:3], qubit_ids=["a0", "a1", "a2"])
        back = list(L.get_traps_from_coordinates(*_reg_xy(reg)))
        if back != want[:3]:
            out.append((f"C19:register-lookup-depends-on-the-number-type:{dt}:{dim}", f"{back} vs {want[:3]}"))
    except Exception as e:
        out.append((f"C19:lookup-fails-for-a-layout-from-a-{dt}-array:{dim}", f"{e}"[:200]))
    wts = [0.1 * (i + 1) for i in range(len(points))]
    try:
        dm, dmref = DetuningMap(arr, wts), DetuningMap([list(p) for p in points], wts)
        w1 = dm.get_qubit_weight_map({f"a{i}": np.array(p, dtype=float) for i, p in enumerate(points)})
        if any(abs(w1[f"a{i}"] - wts[i]) > 1e-12 for i in range(len(points))):
            out.append((f"C19:weights-depend-on-the-number-type:{dt}:{dim}", f"{w1}"))
        if (dm == dmref) is not True:
            out.append((f"C19:detuning-map-identity-depends-on-the-number-type:{dt}:{dim}", ""))
    except Exception as e:
        out.append((f"C19:detuning-map-from-a-{dt}-array-fails:{dim}", f"{e}"[:200]))
    return out + [("@dtype", "")]


# ---- lattice layouts and the registers they define -------------------------------------------------------------------------
def special_cases(tier):
    out = []
    for rows, cols in itertools.product((1, 2, 3, 4), (1, 2, 3, 5)):
        for cs, rs in ((5.0, 5.0), (4.0, 6.5)):
            out.append(("special", "rect", rows, cols, cs, rs))
        out.append(("special", "square", rows, cols, 5.5, 5.5))
    for n in (1, 2, 3, 4, 6, 7, 8, 12, 19, 20):
        out.append(("special", "tri", n, 0, 5.0, 0.0))
    return out


def _reg_xy(reg):
    return [tuple(float(v) for v in np.asarray(reg.qubits[q].as_array(detach=True) if hasattr(reg.qubits[q], "as_array") else reg.qubits[q])) for q in reg.qubit_ids]


def _on_traps(L, reg, tag, what):
    """Generic part of the statement for a register a layout hands out: every qubit exactly on the trap it claims, ids prefix+index in
    order, the layout recorded, coordinate lookup returns the claimed trap ids."""
    out = []
    coords = {i: tuple(float(v) for v in c) for i, c in L.traps_dict.items()}
    xy = _reg_xy(reg)
    if reg.layout != L:
        out.append((f"C19:special-register-layout-lost:{tag}", what))
    claimed = tuple(reg._layout_info.trap_ids) if getattr(reg, "_layout_info", None) is not None else None
    if claimed is None or len(set(claimed)) != len(xy):
        return out + [(f"C19:special-register-trap-ids:{tag}", f"{what}: claims {claimed}")]
    for p, t in zip(xy, claimed):
        if max(abs(a - b) for a, b in zip(p, coords[t])) > 1e-9:
            out.append((f"C19:special-register-off-its-trap:{tag}", f"{what}: qubit at {p} claims trap {t} at {coords[t]}"))
            break
    if list(L.get_traps_from_coordinates(*xy)) != list(claimed):
        out.append((f"C19:special-register-lookup:{tag}", f"{what}: lookup {L.get_traps_from_coordinates(*xy)} vs {claimed}"))
    if list(reg.qubit_ids) != [f"a{i}" for i in range(len(xy))]:
        out.append((f"C19:special-register-ids:{tag}", f"{what}: {list(reg.qubit_ids)}"))
    return out


def _is_block(xy, rows, cols, cs, rs):
    """rows x cols points: `cols` distinct x values spaced by cs, `rows` distinct y values spaced by rs, every combination present."""
    xs = sorted({round(p[0], 6) for p in xy})
    ys = sorted({round(p[1], 6) for p in xy})
    if len(xy) != rows * cols or len(set((round(p[0], 6), round(p[1], 6)) for p in xy)) != rows * cols or len(xs) != cols or len(ys) != rows:
        return False
    return all(abs(b - a - cs) < 1e-6 for a, b in zip(xs, xs[1:])) and all(abs(b - a - rs) < 1e-6 for a, b in zip(ys, ys[1:]))


def check_special(kind, a, b, s1, s2):
    from pulser.register.special_layouts import RectangularLatticeLayout, SquareLatticeLayout, TriangularLatticeLayout

    out = []
    if kind in ("rect", "square"):
        rows, cols = a, b
        L = RectangularLatticeLayout(rows, cols, s1, s2) if kind == "rect" else SquareLatticeLayout(rows, cols, s1)
        traps = [tuple(float(v) for v in c) for c in L.traps_dict.values()]
        if not _is_block(traps, rows, cols, s1, s2):
            out.append((f"C19:special-layout-geometry:{kind}", f"{rows} rows x {cols} columns, spacings {s1} (horizontal) / {s2} (vertical): traps {traps[:6]}..."))
        for r2, c2 in itertools.product(range(1, rows + 2), range(1, cols + 2)):
            fits = r2 <= rows and c2 <= cols
            for meth in ("rectangular",) + (("square",) if r2 == c2 else ()):
                what = f"{kind} {rows}x{cols} -> {meth}_register({r2}{'' if meth == 'square' else ', ' + str(c2)})"
                try:
                    reg = L.square_register(r2, prefix="a") if meth == "square" else L.rectangular_register(r2, c2, prefix="a")
                except ValueError:
                    if fits:
                        out.append((f"C19:special-register-refused:{kind}", what))
                    continue
                if not fits:
                    out.append((f"C19:special-register-does-not-fit-but-accepted:{kind}", what))
                    continue
                out += _on_traps(L, reg, kind, what)
                if not _is_block(_reg_xy(reg), r2, c2, s1, s2):
                    out.append((f"C19:special-register-geometry:{kind}", f"{what}: atoms at {_reg_xy(reg)[:6]}"))
    else:
        n, sp = a, s1
        L = TriangularLatticeLayout(n, sp)
        traps = [tuple(float(v) for v in c) for c in L.traps_dict.values()]
        dmin = min((math.dist(p, q) for i, p in enumerate(traps) for q in traps[:i]), default=sp)
        if len(traps) != n or abs(dmin - sp) > 1e-6:
            out.append(("C19:special-layout-geometry:tri", f"{n} traps, spacing {sp}: {len(traps)} traps, nearest distance {dmin}"))
        for m in range(1, n + 2):
            what = f"tri {n} -> hexagonal_register({m})"
            try:
                reg = L.hexagonal_register(m, prefix="a")
            except ValueError:
                if m <= n:
                    out.append(("C19:special-register-refused:tri", what))
                continue
            if m > n:
                out.append(("C19:special-register-does-not-fit-but-accepted:tri", what))
                continue
            out += _on_traps(L, reg, "tri", what)
            xy = _reg_xy(reg)
            if len(xy) != m or (m > 1 and abs(min(math.dist(p, q) for i, p in enumerate(xy) for q in xy[:i]) - sp) > 1e-6):
                out.append(("C19:special-register-geometry:tri", f"{what}: {xy[:6]}"))
        for r2, c2 in itertools.product((1, 2, 3), (1, 2, 3)):
            what = f"tri {n} -> rectangular_register({r2}, {c2})"
            try:
                reg = L.rectangular_register(r2, c2, prefix="a")
            except ValueError:
                continue  # whether a rectangle fits a hexagonal patch depends on the patch; only accepted registers are judged
            out += _on_traps(L, reg, "tri", what)
            xy = _reg_xy(reg)
            ys = sorted({round(p[1], 6) for p in xy})
            ok = len(xy) == r2 * c2 and len(ys) == r2 and all(abs(b2 - a2 - sp * math.sqrt(3) / 2) < 1e-6 for a2, b2 in zip(ys, ys[1:]))
            for y in ys:
                xs = sorted(p[0] for p in xy if round(p[1], 6) == y)
                ok = ok and len(xs) == c2 and all(abs(b2 - a2 - sp) < 1e-6 for a2, b2 in zip(xs, xs[1:]))
            if not ok:
                out.append(("C19:special-register-geometry:tri-rect", f"{what}: {xy[:6]}"))
    return out + [("@special", "")]


def worker(points):
    with warnings.catch_warnings():
        warnings.simplefilter("ignore")
        if points and points[0] == "special":
            return check_special(*points[1:])
        if points and points[0] == "dtype":
            return check_dtype(tuple(tuple(p) for p in points[1]), points[2])
        if points and points[0] == "ties":
            return check_ties(tuple(tuple(p) for p in points[1]))
        if points and points[0] == "hist":
            return check_hist(points[1], points[2], tuple(points[3]))
        r = check_set(tuple(tuple(p) for p in points))
        return r if r else [("@set", "")]


def run(tier, seed):
    res = Result("exploration")
    sets = point_sets(tier)
    outs = gridx.run(worker, sets)
    classes = {}
    perms = 0
    for s, r in zip(sets, outs):
        perms += math.factorial(len(s))
        for fp, d in r:
            if fp.startswith("@"):
                classes[fp] = classes.get(fp, 0) + 1
            else:
                res.add(Violation(fp, d, {"engine": "grid", "points": [list(p) for p in s]}, size=len(s)))
    hc = hist_cases(tier)
    for c, r in zip(hc, gridx.run(worker, hc, chunksize=32)):
        for fp, d in r:
            if fp.startswith("@"):
                classes[fp] = classes.get(fp, 0) + 1
            else:
                res.add(Violation(fp, d, {"engine": "grid", "points": ["hist", c[1], c[2], list(c[3])]}, size=len(c[3])))
    sc = special_cases(tier) + tie_cases(tier) + dtype_cases(tier)
    for c, r in zip(sc, gridx.run(worker, sc)):
        for fp, d in r:
            if fp.startswith("@"):
                classes[fp] = classes.get(fp, 0) + 1
            else:
                res.add(Violation(fp, d, {"engine": "grid", "points": ([c[0], [list(p) for p in c[1]]] + list(c[2:])) if c[0] in ("ties", "dtype") else list(c)}, size=1))
    res.coverage = dict(
        evaluations=perms + len(hc) + len(sc), distinct_nontrivial=len(sets) + classes.get("@hist", 0), exhaustive=True, point_sets=len(sets),
        object_histories=len(hc), outcome_classes=classes,
        rule="every subset of size 1-3 of a 21-point 2D grid and an 18-point 3D grid built from {-1,-1e-9,0,1,1+4e-7,1+6e-7,2} "
             "(plus five 4/5-point sets with ties in x,y), each in EVERY permutation; for each set every ordered selection of <= 3 "
             "trap ids with unsorted qubit ids, every mapping order of a mappable register, weights attached to points; "
             "evaluations = layouts constructed (set x permutation) + object histories, distinct_nontrivial = coordinate sets + "
             "histories; object histories: every sequence of <= 3 (thorough 4) steps over 12 uses / caller-side edits (constructor "
             "argument, containers and arrays returned by traps_dict / coords / sorted_coords / register.qubits / weights) on one "
             "2D / 3D layout built from an array or a list, compared after every step with a pristine layout of the same coordinates",
        samples=[[list(p) for p in sets[i]] for i in (0, len(sets) // 2, len(sets) - 1)])
    res.assumptions = ["coordinates that coincide only after rounding to 1e-6 are a separately reported class"]
    return res


def replay(payload):
    return [Violation(fp, d, payload) for fp, d in worker(payload["points"]) if not fp.startswith("@")]
