"""C19 — layouts number traps canonically; registers, maps and layouts agree (exhaustive permutations of small coordinate sets)."""
from __future__ import annotations

import itertools
import math
import warnings

import numpy as np

from mc import gridx
from mc.evidence import Result, Violation

V = [-1.0, -1e-9, 0.0, 1.0, 1.0 + 4e-7, 1.0 + 6e-7, 2.0]


def point_sets(tier):
    sets = []
    p2 = [(x, y) for x in V for y in (0.0, 1.0, -1e-9)]
    p3 = [(x, y, z) for x in (0.0, 1.0, 1.0 + 4e-7) for y in (0.0, 1.0) for z in (-1.0, 0.0, 2.0)]
    kmax = 3
    for pts in (p2, p3):
        for k in range(1, kmax + 1):
            for c in itertools.combinations(pts, k):
                sets.append(c)
    # larger sets, all permutations: stacked planes (ties in x,y), a row with near-coincident x, a 5-point set
    sets.append(((0.0, 0.0, 5.0), (0.0, 0.0, 0.0), (0.0, 0.0, 10.0), (1.0, 0.0, 0.0)))
    sets.append(((0.0, 1.0, 1.0), (0.0, 1.0, -1.0), (0.0, 0.0, 3.0), (0.0, 0.0, -3.0)))
    sets.append(((1.0, 0.0), (1.0 + 6e-7, -1.0), (0.0, 2.0), (2.0, -1e-9)))
    sets.append(((2.0, 1.0), (-1.0, 1.0), (0.0, 0.0), (0.0, -1.0), (1.0, 5.0)))
    sets.append(((0.0, 0.0, 1.0), (0.0, 0.0, 0.0), (1.0, 1.0, 1.0), (1.0, 1.0, 0.0), (0.0, 1.0, 0.0)))
    if tier == "thorough":
        for c in itertools.combinations(p2[:14], 4):
            sets.append(c)
    return sets


def canon(points):
    r = [tuple(round(v, 6) + 0.0 for v in p) for p in points]
    return sorted(r)


def coincide(points):
    r = [tuple(round(v, 6) + 0.0 for v in p) for p in points]
    return len(set(r)) < len(r)


def check_set(points):
    from pulser.register.mappable_reg import MappableRegister
    from pulser.register.register_layout import RegisterLayout
    from pulser.register.weight_maps import DetuningMap

    out = []
    n = len(points)
    dim = len(points[0])
    tag = f"{dim}d"
    if coincide(points):
        try:
            with warnings.catch_warnings():
                warnings.simplefilter("ignore")
                L = RegisterLayout(list(points))
        except ValueError:
            return [("@coincident-refused", "")]
        td = L.traps_dict
        coords = [tuple(np.asarray(c).tolist()) for c in td.values()]
        if len(set(coords)) < len(coords):
            return [(f"C19:coincident-after-rounding-accepted:{tag}", f"{points}: two trap ids on one rounded coordinate {coords}")]
        return [("@coincident-handled", "")]
    ref = canon(points)
    weights_by_point = {p: round(0.1 + 0.8 * i / max(1, n - 1), 6) for i, p in enumerate(points)}
    weights_by_point[points[0]] = 0.0  # a zero weight
    base = None
    for perm in itertools.permutations(points):
        with warnings.catch_warnings():
            warnings.simplefilter("ignore")
            L = RegisterLayout(list(perm))
            td = L.traps_dict
            got = [tuple(float(v) + 0.0 for v in np.asarray(td[i])) for i in range(n)]
            if got != ref or L.number_of_traps != n:
                out.append((f"C19:trap-numbering:{tag}", f"given {perm}: ids map to {got}, canonical {ref}"))
                continue
            if base is None:
                base = L
            else:
                if not (L == base and base == L):
                    out.append((f"C19:layout-equality-order-dependent:{tag}", f"{perm}"))
                if L.static_hash() != base.static_hash() or hash(L) != hash(base):
                    out.append((f"C19:layout-hash-order-dependent:{tag}", f"{perm}"))
            # detuning map given in the same (permuted) order
            ws = [weights_by_point[p] for p in perm]
            dm = DetuningMap(list(perm), ws)
            sw = [float(x) for x in dm.sorted_weights]
            exp_sw = [weights_by_point[p] for p in sorted(points, key=lambda q: tuple(round(v, 6) + 0.0 for v in q))]
            if sw != exp_sw:
                out.append((f"C19:sorted-weights:{tag}", f"given {perm}: {sw} vs {exp_sw}"))
            qubits = {f"a{i}": np.array(p) for i, p in enumerate(points)}
            qubits["far"] = np.array([50.0] * dim)
            wm = dm.get_qubit_weight_map(qubits)
            for i, p in enumerate(points):
                if not math.isclose(wm[f"a{i}"], weights_by_point[p], abs_tol=1e-12):
                    out.append((f"C19:qubit-weight:{tag}", f"given {perm}: qubit at {p} gets {wm[f'a{i}']}, trap weight {weights_by_point[p]}"))
            if wm["far"] != 0:
                out.append((f"C19:qubit-weight-off-trap:{tag}", f"{wm['far']}"))
            if base is not L and dm != DetuningMap(list(points), [weights_by_point[p] for p in points]):
                out.append((f"C19:detuning-map-equality-order-dependent:{tag}", f"{perm}"))
    if base is None:
        return out
    L = base
    # registers from trap ids: every ordered selection of <= 3 traps
    for k in range(1, min(3, n) + 1):
        for sel in itertools.permutations(range(n), k):
            qids = [f"u{j}" for j in range(k)][::-1]  # ids deliberately not in sorted order
            reg = L.define_register(*sel, qubit_ids=qids)
            if list(reg.qubit_ids) != qids:
                out.append((f"C19:register-id-order:{tag}", f"{sel}: {reg.qubit_ids}"))
            for q, t in zip(qids, sel):
                pos = tuple(float(v) + 0.0 for v in np.asarray(reg.qubits[q].as_array(detach=True) if hasattr(reg.qubits[q], "as_array") else reg.qubits[q]))
                if pos != ref[t]:
                    out.append((f"C19:register-position:{tag}", f"qubit {q} on trap {t}: {pos} vs {ref[t]}"))
            back = L.get_traps_from_coordinates(*[ref[t] for t in sel])
            if list(back) != list(sel):
                out.append((f"C19:traps-from-coordinates:{tag}", f"{sel} -> {back}"))
            # raw (unrounded) coordinates must resolve to the same traps
            raw_by_ref = {tuple(round(v, 6) + 0.0 for v in p): p for p in points}
            back2 = L.get_traps_from_coordinates(*[raw_by_ref[ref[t]] for t in sel])
            if list(back2) != list(sel):
                out.append((f"C19:traps-from-raw-coordinates:{tag}", f"{sel} -> {back2}"))
            # mappable register: declared order c, a, b (not sorted); map the first k ids
            decl = ["c", "a", "b"][: max(k, 1)] + ["z"] * 0
            mr = MappableRegister(L, *decl[:k], *[f"x{j}" for j in range(n - k)][: n - k])
            for order in itertools.permutations(range(k)):
                mapping = {decl[i]: sel[i] for i in order}  # insertion order varies
                r2 = mr.build_register(mapping)
                if list(r2.qubit_ids) != decl[:k]:
                    out.append((f"C19:mappable-declared-order:{tag}", f"mapping given as {list(mapping)}: register order {r2.qubit_ids}"))
                for i in range(k):
                    pos = tuple(float(v) + 0.0 for v in np.asarray(r2.qubits[decl[i]].as_array(detach=True) if hasattr(r2.qubits[decl[i]], "as_array") else r2.qubits[decl[i]]))
                    if pos != ref[sel[i]]:
                        out.append((f"C19:mappable-position:{tag}", f"{decl[i]} -> trap {sel[i]}: {pos}"))
                if mr.find_indices(decl[:k][::-1]) != list(range(k))[::-1]:
                    out.append((f"C19:find-indices:{tag}", ""))
    return out


def worker(points):
    with warnings.catch_warnings():
        warnings.simplefilter("ignore")
        return check_set(tuple(tuple(p) for p in points))


def run(tier, seed):
    res = Result("exploration")
    sets = point_sets(tier)
    outs = gridx.run(worker, sets)
    classes = {}
    perms = 0
    for s, r in zip(sets, outs):
        perms += math.factorial(len(s))
        for fp, d in r:
            if fp.startswith("@"):
                classes[fp] = classes.get(fp, 0) + 1
            else:
                res.add(Violation(fp, d, {"engine": "grid", "points": [list(p) for p in s]}, size=len(s)))
    res.coverage = dict(
        evaluations=perms, distinct_nontrivial=len(sets), exhaustive=True, point_sets=len(sets), outcome_classes=classes,
        rule="every subset of size 1-3 of a 21-point 2D grid and an 18-point 3D grid built from {-1,-1e-9,0,1,1+4e-7,1+6e-7,2} "
             "(plus five 4/5-point sets with ties in x,y), each in EVERY permutation; for each set every ordered selection of <= 3 "
             "trap ids with unsorted qubit ids, every mapping order of a mappable register, weights attached to points; "
             "evaluations = layouts constructed (set x permutation), distinct_nontrivial = coordinate sets",
        samples=[[list(p) for p in sets[i]] for i in (0, len(sets) // 2, len(sets) - 1)])
    res.assumptions = ["coordinates that coincide only after rounding to 1e-6 are a separately reported class"]
    return res


def replay(payload):
    return [Violation(fp, d, payload) for fp, d in worker(payload["points"]) if not fp.startswith("@")]
