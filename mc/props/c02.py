"""C02 — channel timelines are gap-free, non-overlapping, clock-aligned and stable (model-free monitors
on every transition of a SeqX exploration)."""
from __future__ import annotations

from mc import alphabets as A
from mc import monitors as M
from mc import seqx
from mc.evidence import Result
from mc.worlds import corner

MONITORS = [M.tiling, M.prefix_stable, M.durations, M.views]


def plan(tier, seed):
    worlds = [
        (corner("unit", prefix=A.GL), A.timing(), 3),
        (corner("real", prefix=A.GL), A.timing(), 3),
        (corner("awk", prefix=A.GL), A.timing(), 3),
        (corner("mixed", prefix=A.GLD), A.timing(dmm=True), 2),
        (corner("real", prefix=A.GR, name="real-samebasis"), A.timing(l="r", basis_l="ground-rydberg"), 3),
        (corner("awk", prefix=A.DG, name="awk-dmm-first"), A.timing(l="r", basis_l="ground-rydberg", dmm=True), 2),
        (corner("mixed", prefix=A.LL, name="mixed-two-locals"), A.two_locals(), 3),
        (corner("unit8", prefix=A.GL, name="unit8-fall-tail"), A.fall_tail(rise=60), 4),
        (corner("real", prefix=A.DEEP_GL_EOM, name="real-deep-root-in-eom"), A.timing(), 2),
        (corner("real", prefix=[("slm", ["q0"])] + A.GL, name="real-ising-slm-mask"), A.timing(dmm=True), 2),
        (corner("real", prefix=A.GL, max_dur=100, retarget=220, name="real-max-duration-below-waits"), A.timing(), 2),
        # two channels on ONE basis with different clocks: a phase barrier set by the fine channel is off the coarse channel's grid
        (corner("unit", prefix=A.GR, over={"rydberg_local": dict(clock=4, min_dur=8)}, name="unit-samebasis-clock-1-vs-4"),
         A.timing(l="r", basis_l="ground-rydberg", eom=False), 3),
        # EOM buffer times that are below the channel's minimum duration / off its clock grid (they have to be adjusted like any wait)
        (corner("real", prefix=A.GL, eom=dict(custom_buffer_time=50), name="real-eom-buffer-off-the-clock-grid"), A.timing(), 2),
        (corner("real", prefix=A.GL, eom=dict(custom_buffer_time=8), name="real-eom-buffer-below-the-minimum-duration"), A.timing(), 2),
        # a spare Local channel declared first, without an initial target and never targeted (a valid channel with no slot at all)
        (corner("real", prefix=[("declare", "s", "rydberg_local")] + A.GL, name="real-spare-untargeted-channel-first"), A.timing(), 2),
        # a minimum duration that is NOT a multiple of the clock (clock 4, minimum 10): automatic waits at or below the minimum
        # (retarget interval 8; an 8 ns cross-channel wait) must still land on the clock grid
        (corner("unit", prefix=A.GR, over={"rydberg_local": dict(clock=4, min_dur=10, retarget=8)}, name="unit-min-duration-off-the-clock-grid"),
         A.timing(l="r", basis_l="ground-rydberg", eom=False) + [("add", ["c", 100, 1.0, 0.0, 0.0], "g"), ("delay", 92, "r")], 3),
        (corner("unit8", prefix=A.GL, bw=30, eom=dict(mod_bandwidth=8), name="unit8-eom-slower-than-channel"), A.timing(), 2),
        (corner("awk", prefix=A.DEEP_GL_AFTER, name="awk-deep-root-after-eom"), A.timing(), 2),
    ]
    if tier == "thorough":
        worlds = [(w, a, d + 1) for w, a, d in worlds]
        worlds.append((corner("unit8", prefix=A.GL), A.timing(), 4))
        worlds.append((corner("real", prefix=A.GL, max_seq=400, name="real-max400"), A.timing(), 4))
    return worlds


def run(tier, seed):
    res = Result("model_checking")
    cov = dict(states=0, transitions=0, traces_validated_against_impl=0, refused=0, worlds=[], samples=[], exhaustive=True)
    for spec, alpha, depth in plan(tier, seed):
        ex = seqx.explore(spec, alpha, depth, MONITORS)
        cov["states"] += ex.states
        cov["transitions"] += ex.transitions
        cov["refused"] += ex.refused
        cov["traces_validated_against_impl"] += ex.transitions  # every transition ran on the real Sequence
        cov["exhaustive"] &= ex.exhaustive
        cov["worlds"].append(dict(world=spec["name"], depth=depth, alphabet=len(alpha), states=ex.states,
                                  transitions=ex.transitions, refused=ex.refused, layers=ex.layers, wall=round(ex.wall, 1)))
        cov["samples"] += ex.samples
        res.violations += ex.violations
        for k, v in ex.activations.items():
            res.activations[k] = res.activations.get(k, 0) + v
    cov["rule"] = ("breadth-first over all call histories up to the stated depth per world; a state is the canonical "
                   "snapshot of the real Sequence (timeline, EOM blocks, phase references, flags)")
    res.coverage = cov
    res.required_activations = ["tiling_channels", "prefix_checked", "duration_checked", "views_checked"]
    res.assumptions = ["Pulse.fall_time is a trusted input of the pending-fall-time computation (decided by C14)",
                       "histories bounded by the stated depth; alphabets as listed in mc/alphabets.py"]
    return res


def replay(payload):
    return seqx.replay(payload, MONITORS)
