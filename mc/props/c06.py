"""C06 — sampling renders the schedule exactly (RefRender vs sample() / to_nested_dict on every explored state)."""
from __future__ import annotations

import warnings

import numpy as np

from mc import alphabets as A
from mc import refrender, seqx
from mc.evidence import Result
from mc.refsched import basis_of
from mc.worlds import corner

TOL = 1e-9


def _close(a, b):
    return a.shape == b.shape and np.allclose(a, b, rtol=TOL, atol=TOL)


def situation(snap, world, basis, q):
    """Class of the addressing situation of atom q in a basis (used in fingerprints)."""
    g = loc = dm = 0
    for ch in snap.channels.values():
        if basis_of(ch.ch_id) != basis or not any(s.kind == "pulse" for s in ch.slots):
            continue
        if ch.is_dmm:
            dm += 1
        elif world.params(ch.ch_id)["local"]:
            loc += any(q in s.targets for s in ch.slots if s.kind == "pulse")
        else:
            g += 1
    return f"globals={min(g, 2)}{'+' if g > 2 else ''},locals={min(loc, 2)},dmm={dm}"



def merged_view(ss, snap, world, all_local, T):
    """What the nested-dict representation can express at best (the scope of the known 'merge' findings): per entry (Global[basis],
    Local[basis][atom]) the amplitude, detuning and carried-phase arrays of the contributing channels are ADDED, and the drive of
    an atom is amp x exp(-i phase) of its entries.  Built from the per-channel samples (which part 1 of this check verifies against
    the schedule) and the slot windows / weights of the snapshot - not from to_nested_dict()."""
    masked = set(snap.flags.get("slm_targets") or ())
    in_xy = bool(snap.flags.get("in_xy"))
    mask_end = refrender.slm_end(snap, world) if (in_xy and masked) else 0
    ent = {}  # (addr, basis, q or None) -> [amp, det, phase]

    def entry(key):
        return ent.setdefault(key, [np.zeros(T), np.zeros(T), np.zeros(T)])

    for name, ch in snap.channels.items():
        cs = ss.channel_samples[name]
        if len(cs.amp) != T:
            cs = cs.extend_duration(T)
        a, d, ph = (np.asarray(x.as_array(detach=True) if hasattr(x, "as_array") else x, dtype=float) for x in (cs.amp, cs.det, cs.phase))
        basis = basis_of(ch.ch_id)
        local = world.params(ch.ch_id)["local"]
        wts = refrender.weights_of(ch, world) if ch.is_dmm else None
        if not local and not all_local and not ch.is_dmm:
            st = mask_end if basis == "XY" else 0
            e = entry(("G", basis, None))
            e[0][st:] += a[st:]
            e[1][st:] += d[st:]
            e[2][st:] += ph[st:]
            if st and ch.slots:
                for q in set(ch.slots[0].targets) - masked:
                    e = entry(("L", basis, q))
                    e[0][:st] += a[:st]
                    e[1][:st] += d[:st]
                    e[2][:st] += ph[:st]
            continue
        pulses = [x for x in ch.slots if x.kind == "pulse"]
        for k, sl in enumerate(pulses):
            nxt = pulses[k + 1].ti if k + 1 < len(pulses) else T
            for q in sl.targets:
                ti = max(sl.ti, mask_end) if (basis == "XY" and q in masked) else sl.ti
                if ti >= sl.tf:
                    continue
                e = entry(("L", basis, q))
                tf = min(T, sl.tf + sl.fall_own, nxt)  # the sampler's target windows include the fall time, up to the next pulse
                e[0][ti:tf] += a[ti:tf]
                e[1][ti:tf] += d[ti:tf] * (wts[q] if wts is not None else 1.0)
                e[2][ti:tf] += ph[ti:tf]
    out = {}
    for (addr, basis, q), (a, d, ph) in ent.items():
        dd = out.setdefault(basis, {x: (np.zeros(T, dtype=complex), np.zeros(T)) for x in world.qids})
        for x in (world.qids if addr == "G" else [q]):
            dd[x][0][:] += a * np.exp(-1j * ph)
            dd[x][1][:] += d
    return out


def retarget_takes_effect(ctx):
    """What the per-atom view attributes follows the targets AS WRITTEN: after an accepted target(Q, ch) the channel addresses exactly Q
    (also when Q is a subset of what it addressed before), and every later pulse slot carries Q."""
    op = ctx.op
    if op[0] != "target" or ctx.exc is not None or op[2] not in ctx.post.channels:
        return []
    want = tuple(sorted((list(op[1]) if isinstance(op[1], (list, tuple, set)) else [op[1]]), key=str))
    ch = ctx.post.channels[op[2]]
    ctx.act["retargets_checked"] += 1
    pre = ctx.pre.channels.get(op[2])
    if pre is not None and pre.slots and set(want) < set(pre.slots[-1].targets):
        ctx.act["retargets_to_a_subset"] += 1
    got = tuple(sorted(ch.slots[-1].targets, key=str)) if ch.slots else ()
    if got != want:
        return [("C06:retarget-did-not-take-effect", f"{op[2]}: target({list(want)}) accepted but the channel still addresses {list(got)}")]
    return []


def idle_is_zero_outside_eom(ctx):
    """'zero elsewhere': a delay on a channel that is not in EOM mode (no block open - whatever blocks were opened and closed before, also a
    block of length zero) appends idle time without amplitude or detuning."""
    op = ctx.op
    if op[0] != "delay" or ctx.exc is not None or op[2] not in ctx.pre.channels:
        return []
    pre, post = ctx.pre.channels[op[2]], ctx.post.channels[op[2]]
    if pre.eom_blocks and pre.eom_blocks[-1][4] is None:
        return []  # an open block: idle time sits at its off-detuning
    ctx.act["delays_outside_eom_checked"] += 1
    if pre.eom_blocks:
        ctx.act["delays_after_a_closed_eom_block"] += 1
    for s_ in post.slots[len(pre.slots):]:
        if s_.kind == "pulse" and (np.abs(s_.pulse.amp).max() > 0 or np.abs(s_.pulse.det).max() > 0):
            return [("C06:idle-time-outside-eom-mode-carries-a-drive", f"{op[2]}: delay({op[1]}) appended {s_.brief()} with detuning {float(s_.pulse.det[0]):.4g} "
                     f"(EOM blocks {[(b[3], b[4]) for b in pre.eom_blocks]}, none open)")]
    return []


def render(ctx):
    if ctx.exc is not None or not ctx.post.flags["building"]:
        return []
    snap, w = ctx.post, ctx.world
    if all(not c.slots for c in snap.channels.values()):
        return []
    if any(not c.slots for c in snap.channels.values()):
        # a Local channel declared without an initial target and never targeted: a valid, empty channel of duration 0
        ctx.act["states_with_a_never_targeted_channel"] += 1
    from pulser.sampler import sample

    k = ctx.op[0]
    out = []
    with warnings.catch_warnings():
        warnings.simplefilter("ignore")
        try:
            ss = sample(ctx.seq)
        except Exception as e:
            return [(f"C06:sample-raises:{type(e).__name__}", repr(e)[:200])]
        T = max(c.end for c in snap.channels.values())
        try:
            sampled = list(ss.channel_samples)
        except Exception as e:
            return [(f"C06:channel-samples-unreadable:{type(e).__name__}", repr(e)[:200])]
        if sampled != list(snap.channels):
            return [(f"C06:sampled-channels-differ-from-declared:{k}", f"declared {list(snap.channels)}, sampled {sampled}")]
        # 1. per channel arrays
        for name, ch in snap.channels.items():
            cs = ss.channel_samples[name]
            amp, det = refrender.channel_arrays(ch)
            ctx.act["channels_rendered"] += 1
            if len(cs.amp) != ch.end:
                out.append((f"C06:channel-length:{k}", f"{name}: {len(cs.amp)} vs {ch.end}"))
                continue
            ia, idt, iph = (np.asarray(x.as_array(detach=True) if hasattr(x, "as_array") else x, dtype=float) for x in (cs.amp, cs.det, cs.phase))
            if not _close(ia, amp):
                out.append((f"C06:channel-amplitude:{k}", f"{name}: first difference at t={int(np.argmax(np.abs(ia - amp) > TOL))}"))
            if not _close(idt, det):
                out.append((f"C06:channel-detuning:{k}", f"{name}: first difference at t={int(np.argmax(np.abs(idt - det) > TOL))}"))
            for s in ch.slots:
                if s.kind == "pulse" and not s.pulse.detuned_delay:
                    ctx.act["pulse_phases_checked"] += 1
                    seg = iph[s.ti:s.tf]
                    if np.any(np.abs(((seg - s.pulse.phase + np.pi) % (2 * np.pi)) - np.pi) > TOL):
                        out.append((f"C06:channel-phase:{k}", f"{name}: {s.brief()} sampled phase {seg[0]:.6f}..{seg[-1]:.6f}"))
            # 3. extension only pads
            for extra in (1, 37):
                e = cs.extend_duration(ch.end + extra)
                ea, ed = refrender.channel_arrays(ch, ch.end + extra)
                xa, xd, xp = (np.asarray(x.as_array(detach=True), dtype=float) for x in (e.amp, e.det, e.phase))
                ctx.act["extensions_checked"] += 1
                if ch.in_eom():
                    ctx.act["extensions_in_eom"] += 1
                if not _close(xa, ea) or not _close(xd, ed):
                    out.append((f"C06:extension-padding:{'eom' if ch.in_eom() else 'std'}", f"{name}: +{extra} ns pads amp {xa[-1]} det {xd[-1]}, expected {ea[-1]} / {ed[-1]}"))
                elif ch.end and np.any(np.abs(xp[ch.end:] - iph[-1]) > TOL):
                    out.append((f"C06:extension-phase", f"{name}: padded phase {xp[-1]} vs last phase {iph[-1]}"))
        # 3b. extension of the whole set of samples: every channel padded to exactly the requested duration (also when it is the
        # duration of the longest channel)
        Tmax = max(c.end for c in snap.channels.values())
        for newT in (Tmax, Tmax + 1, Tmax + 37):
            try:
                es = ss.extend_duration(newT)
            except Exception as e:
                out.append((f"C06:sequence-extension-raises:{type(e).__name__}", f"extend_duration({newT}) with longest channel {Tmax}: {e}"[:200]))
                continue
            ctx.act["sequence_extensions_checked"] += 1
            for name, ch in snap.channels.items():
                e = es.channel_samples[name]
                ea, ed = refrender.channel_arrays(ch, newT)
                xa, xd = (np.asarray(x.as_array(detach=True), dtype=float) for x in (e.amp, e.det))
                if len(xa) != newT or len(xd) != newT or len(e.phase) != newT:
                    out.append((f"C06:sequence-extension-length:{'at-longest' if newT == Tmax else 'beyond'}",
                                f"{name}: {len(xa)} samples after extend_duration({newT}) (channel ends at {ch.end}, longest at {Tmax})"))
                elif not _close(xa, ea) or not _close(xd, ed):
                    out.append((f"C06:sequence-extension-padding:{'eom' if ch.in_eom() else 'std'}", f"{name}: extend_duration({newT})"))
        # 2. per atom / basis
        ref, T = refrender.atom_view(snap, w)
        for all_local in (False, True):
            try:
                nested = ss.to_nested_dict(all_local=all_local)
            except Exception as e:
                out.append((f"C06:nested-dict-raises:{type(e).__name__}", repr(e)[:200]))
                continue
            got = refrender.impl_atom_view(nested, w.qids, T)
            merged = None
            for basis, d in ref.items():
                for q, (drive, det) in d.items():
                    ctx.act["atom_views_checked"] += 1
                    if np.any(drive != 0):
                        ctx.act["atom_views_driven"] += 1
                    gd, gt = got.get(basis, {}).get(q, (np.zeros(T, dtype=complex), np.zeros(T)))
                    sit = situation(snap, w, basis, q)
                    if not _close(gd, drive):
                        t = int(np.argmax(np.abs(gd - drive) > TOL))
                        # several channels merged into one entry (known findings): is the sampled value at least the documented
                        # sum of amplitudes and phases?  If not, it is a different violation and gets a different fingerprint.
                        kind = "atom-drive"
                        xy_masked = bool(snap.flags.get("in_xy")) and bool(snap.flags.get("slm_targets"))  # not modelled in merged_view
                        if not xy_masked and ("globals=2" in sit or (all_local and "globals=1" in sit and "locals=0" not in sit)):
                            if merged is None:
                                merged = merged_view(ss, snap, w, all_local, T)
                            md = merged.get(basis, {}).get(q, (np.zeros(T, dtype=complex), np.zeros(T)))[0]
                            if not _close(gd, md):
                                kind = "atom-drive-not-even-the-merged-sum"
                        out.append((f"C06:{kind}:{sit}:all_local={all_local}",
                                    f"{basis}/{q} at t={t}: sampled {gd[t]:.6f}, scheduled {drive[t]:.6f}"))
                    if not _close(gt, det):
                        t = int(np.argmax(np.abs(gt - det) > TOL))
                        bad = np.abs(gt - det) > TOL
                        pad_from = min([c.end for c in snap.channels.values() if c.in_eom() and basis_of(c.ch_id) == basis] + [T])
                        if not bad[:pad_from].any():
                            sit += ":only-in-open-eom-padding"
                        out.append((f"C06:atom-detuning:{sit}:all_local={all_local}",
                                    f"{basis}/{q} at t={t}: sampled {gt[t]:.6f}, scheduled {det[t]:.6f}"))
    return out


MONITORS = [render, retarget_takes_effect, idle_is_zero_outside_eom]

XYP = [("declare", "m", "mw_global")]
XYS = [("slm", ["q0"]), ("declare", "m", "mw_global"), ("declare", "n", "mw_global")]


def plan(tier, seed):
    worlds = [
        (corner("real", prefix=A.GL, qubits=3), A.render(), 3),
        (corner("unit8", prefix=A.GR, qubits=3, name="unit8-samebasis"), A.render(l="r"), 3),
        (corner("mixed", prefix=A.GLD, qubits=3, name="mixed-dmm"), A.render(dmm="dmm_0", eom=False), 3),
        (corner("unit8", prefix=XYS, qubits=3, name="xy-slm"), A.render(g="m", l=None, g2="n", eom=False), 3),
        (corner("real", prefix=A.GG, qubits=2, name="real-two-globals"), A.render(l=None, g2="h"), 3),
        (corner("real", prefix=A.LL, qubits=2, name="real-two-locals"), A.two_locals(), 3),
        # channel declaration order matters to the per-atom merge: DMM configured before the channels
        (corner("unit8", prefix=A.DG, qubits=3, name="unit8-dmm-first"), A.render(l="r", dmm="dmm_0", eom=False), 3),
        # Ising mode with an SLM mask (a DMM channel created by the sequence); two detuning maps on the same DMM id
        (corner("real", prefix=[("declare", "g", "rydberg_global"), ("declare", "r", "rydberg_local", "q0"), ("slm", ["q0", "q2"])],
                qubits=3, name="ising-slm-mask"), A.render(l="r", eom=False), 3),
        (corner("unit8", prefix=[("config_dmm", "m2", "dmm_0"), ("config_dmm", "m1", "dmm_0"), ("declare", "g", "rydberg_global")],
                qubits=3, name="two-maps-on-one-dmm-id"),
         A.render(l=None, dmm="dmm_0", eom=False) + [("add_dmm", ["C", 40, -0.75], "dmm_0_1", "no-delay")], 3),
        (corner("mixed", prefix=A.GLD, qubits=3, detmap_jitter=-4e-7, name="mixed-dmm-map-from-its-own-array"), A.render(dmm="dmm_0", eom=False), 2),
        (corner("mixed", prefix=A.GLD, qubits=3, qid_alias={"q0": 2, "q1": 0, "q2": 1}, name="mixed-dmm-int-ids-out-of-order"),
         A.render(dmm="dmm_0", eom=False), 3),
        (corner("unit8", prefix=A.GR, qubits=3, qid_alias={"q0": "z", "q1": "a", "q2": "m"}, name="unit8-str-ids-out-of-order"),
         A.render(l="r"), 2),
        # EOM mode (with a non-zero off-detuning) enabled and disabled on a still empty channel: a block of length zero at t = 0; the channel is
        # out of EOM mode afterwards and idles at zero detuning
        (corner("real", prefix=[("declare", "g", "rydberg_global"), ("declare", "l", "raman_local", "q0"), ("enable_eom", "g", 20.0, 0.0, -40.0, False),
                                ("disable_eom", "g", False)], qubits=3, name="real-zero-length-eom-block-at-0"), A.render(), 2),
        # a spare Local channel declared FIRST, without an initial target and never targeted (no slot at all), next to used channels
        (corner("real", prefix=[("declare", "s", "rydberg_local")] + A.GL, qubits=3, name="real-spare-untargeted-channel-first"), A.render(), 2),
        (corner("unit8", prefix=[("declare", "g", "rydberg_global"), ("declare", "s", "raman_local"), ("declare", "r", "rydberg_local", "q0")], qubits=3,
                name="unit8-spare-untargeted-channel-between"), A.render(l="r"), 2),
    ]
    if tier == "thorough":
        worlds = [(w, a, d + 1) for w, a, d in worlds]
    return worlds


def run(tier, seed):
    res = Result("exploration")
    cov = seqx.run_plan(res, plan(tier, seed), MONITORS)
    cov["evaluations"] = cov["transitions"]
    cov["distinct_nontrivial"] = cov["states"]
    cov["rule"] = ("every state reachable by the stated depth over the rendering alphabets (distinct timeline snapshots); each is "
                   "sampled and compared nanosecond by nanosecond with RefRender: per channel, per atom and basis (both "
                   "to_nested_dict layouts) and under extension by 1 and 37 ns")
    res.coverage = cov
    res.required_activations = ["channels_rendered", "pulse_phases_checked", "atom_views_driven", "extensions_in_eom"]
    res.assumptions = ["per-atom comparison is representation independent: complex drive amp*exp(-i phase) summed over the Global and "
                       "Local entries of the nested dictionary", "phase between pulses is not compared (only over each real pulse)"]
    return res


def replay(payload):
    return seqx.replay(payload, MONITORS)
