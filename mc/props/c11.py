"""C11 — emulation keeps states physical and follows the measurement conventions.
EmuX: exhaustive duration sweep (legacy emulator vs V2 backend vs analytic Rabi), noise configurations x programs
(physicality of every stored state), bitstring conventions for every basis-state tuple, EnvX tapes for sampling and
detection errors."""
from __future__ import annotations

import itertools
import math
import warnings
from collections import Counter

import numpy as np

from mc import gridx
from mc.evidence import Result, Violation


def world_device():
    from mc.worlds import World

    return World(dict(name="emu")).device


# ---- A. duration sweep -------------------------------------------------------------------------------
def sweep_case(T):
    import pulser
    from pulser import Pulse, Register, Sequence
    from pulser_simulation import QutipBackendV2, QutipEmulator

    out = []
    omega = 2 * math.pi * 0.7  # rad/us
    with warnings.catch_warnings():
        warnings.simplefilter("ignore")
        seq = Sequence(Register({"q0": (0.0, 0.0)}), world_device())
        seq.declare_channel("g", "rydberg_global")
        seq.add(Pulse.ConstantPulse(T, omega, 0.0, 0.0), "g")
        try:
            sim = QutipEmulator.from_sequence(seq)
            fin = sim.run().get_final_state().full().ravel()
        except Exception as e:
            return [(f"C11:legacy-emulator-raises:{type(e).__name__}", f"T={T}: {e}"[:200])]
        nrm = float(np.sum(np.abs(fin) ** 2))
        tolT = 1e-5 * max(1.0, T / 1000)  # solver error grows with the integration time
        if abs(nrm - 1) > tolT:
            out.append(("C11:norm-not-preserved:legacy", f"T={T}: |psi|^2 = {nrm}"))
        # The samples are interpolated by the solver and the last one (at t = T) is the zero padding, so the
        # effective pulse area lies between Omega (T-1) and Omega T: the analytic value must fall in that range.
        p = float(abs(fin[0]) ** 2)
        cands = [math.sin(omega * (T - x) * 1e-3 / 2) ** 2 for x in np.linspace(0, 1, 41)]
        if not (min(cands) - 1e-4 <= p <= max(cands) + 1e-4):
            out.append(("C11:rabi-oscillation", f"T={T}: P(r)={p:.6f}, sin^2(Omega t/2) for t in [T-1, T] spans [{min(cands):.6f}, {max(cands):.6f}]"))
        # with every sample time stored ('Full'), asking for the state at a stored time returns THAT state - in particular the final one
        if T % 9 == 0 or T in (500, 501, 1000, 1001, 2000, 2001):
            try:
                simf = QutipEmulator.from_sequence(seq)
                simf.set_evaluation_times("Full")
                rf = simf.run()
                def ov(a, b):  # normalised overlap: neighbouring samples differ by ~2e-6 for this drive
                    x, y = a.full().ravel(), b.full().ravel()
                    return abs(np.vdot(x, y)) / math.sqrt(float(np.vdot(x, x).real) * float(np.vdot(y, y).real))

                n = len(rf.states)
                if abs(ov(rf.get_final_state(), rf.states[-1]) - 1) > 2e-7:
                    near = [k for k in range(n) if abs(ov(rf.get_final_state(), rf.states[k]) - 1) < 2e-7]
                    out.append(("C11:final-state-is-not-the-last-state:legacy", f"T={T}, 'Full': get_final_state() is the state of index {near[:2]} of {n} (times end {list(rf._sim_times[-3:])})"))
                for k in (n - 2, n - 3, n // 2):
                    if 0 <= k < n and abs(ov(rf.get_state(float(rf._sim_times[k])), rf.states[k]) - 1) > 2e-7:
                        out.append(("C11:state-at-a-stored-time-is-another-state:legacy", f"T={T}, 'Full': get_state({rf._sim_times[k]}) is not states[{k}]"))
                        break
            except Exception as e:
                out.append((f"C11:legacy-emulator-raises:{type(e).__name__}", f"T={T} 'Full': {e}"[:200]))
        try:
            res = QutipBackendV2(seq).run()
        except Exception as e:
            return out + [(f"C11:v2-raises-where-legacy-runs:{type(e).__name__}", f"T={T}: {e}"[:200])]
        try:
            st = res.get_result("state", 1.0)
        except ValueError as e:
            return out + [("C11:v2-final-state-not-at-time-1", f"T={T}: stored times {res.get_result_times('state')}: {e}"[:200])]
        v2 = st.to_qobj().full().ravel()
        ov = abs(np.vdot(v2, fin))
        if abs(ov - 1) > 2 * tolT:
            out.append(("C11:v2-state-differs-from-legacy", f"T={T}: |<v2|legacy>| = {ov}"))
    return out + [("@sweep", "")]



# ---- A2. piecewise-constant resonant drives: short strong segments next to long weak ones -------------------------------------
PIECEWISE = [
    [(4000, 0.05), (52, math.pi * 1000 / 52), (4000, 0.05), (1000, None)],
    [(4000, 0.5), (52, math.pi * 1000 / 52), (4000, 0.5), (1000, None)],
    [(2000, 0.2), (20, math.pi * 1000 / 40), (2000, 0.2), (500, None)],
    [(1000, 1.0), (16, 30.0), (16, 60.0), (1000, 1.0), (300, None)],
    [(3000, 0.1), (30, 25.0), (3000, 0.1)],
    [(500, None), (3000, 0.3), (24, 40.0), (3000, 0.3), (500, None)],
]


def piecewise_cases(tier):
    return [("piecewise", i, ev) for i in range(len(PIECEWISE)) for ev in ("Full", "Minimal", "v2")]


def check_piecewise(i, ev):
    """A resonant drive of constant phase rotates by the total area whatever its shape: P(r) = sin^2(area / 2)."""
    from pulser import Pulse, Register, Sequence
    from pulser.backend import StateResult
    from pulser_simulation import QutipBackendV2, QutipConfig, QutipEmulator

    seq = Sequence(Register({"q0": (0.0, 0.0)}), world_device())
    seq.declare_channel("g", "rydberg_global")
    area = 0.0
    for dur, amp in PIECEWISE[i]:
        if amp is None:
            seq.delay(dur, "g")
        else:
            seq.add(Pulse.ConstantPulse(dur, amp, 0.0, 0.0), "g", "no-delay")
            area += amp * dur * 1e-3
    want = math.sin(area / 2) ** 2
    try:
        if ev == "v2":
            res = QutipBackendV2(seq, config=QutipConfig(observables=[StateResult()])).run()
            st = res.get_result("state", res.get_result_times("state")[-1]).to_qobj().full().ravel()
        else:
            sim = QutipEmulator.from_sequence(seq)
            sim.set_evaluation_times(ev)
            st = sim.run().states[-1].full().ravel()
    except Exception as e:
        return [(f"C11:piecewise-drive-raises:{ev}:{type(e).__name__}", f"segments {PIECEWISE[i]}: {e}"[:200])]
    got = float(abs(st[0]) ** 2)
    # the sampled drive is piecewise constant per ns: exact up to the solver tolerance and the one padded sample
    if abs(got - want) > 2e-3:
        return [(f"C11:piecewise-resonant-drive:{ev}", f"segments {PIECEWISE[i]}: P(r) = {got:.6f}, sin^2(area/2) = {want:.6f} (area {area:.4f})")]
    return [("@piecewise", "")]


# ---- B. physicality under noise / idle / evaluation times -----------------------------------------------
NOISES = {
    "none": {},
    "dephasing": dict(dephasing_rate=0.3),
    "hyperfine-dephasing": dict(hyperfine_dephasing_rate=0.3),
    "relaxation": dict(relaxation_rate=0.5),
    "depolarizing": dict(depolarizing_rate=0.3),
    "eff_noise": dict(eff_noise_rates=(0.4,), eff_noise_opers=([[0.0, 1.0], [0.0, 0.0]],)),
    "relax+deph": dict(relaxation_rate=0.2, dephasing_rate=0.2),
}
PROGS = ["rabi", "idle", "detuned", "two-atoms", "digital", "both-bases", "xy", "zero-drive", "lead-idle", "long-idle"]
EVALS = ["Full", "default", "list", "per-observable"]


def phys_cases(tier):
    out = []
    for prog, noise, ev in itertools.product(PROGS, NOISES, EVALS):
        for rate in ((1.0, 0.5) if tier == "quick" else (1.0, 0.5, 0.1)):
            out.append(("phys", prog, noise, ev, rate))
    return out


def build_prog(prog):
    from pulser import Pulse, Register, Sequence

    dev = world_device()
    two = prog in ("two-atoms", "xy", "both-bases")
    reg = Register({"q0": (0.0, 0.0), "q1": (7.0, 0.0)} if two else {"q0": (0.0, 0.0)})
    seq = Sequence(reg, dev)
    if prog == "xy":
        seq.declare_channel("m", "mw_global")
        seq.add(Pulse.ConstantPulse(100, 3.0, 0.5, 0.3), "m")
        seq.delay(60, "m")
        return seq
    if prog == "digital":
        seq.declare_channel("d", "raman_global")
        seq.add(Pulse.ConstantPulse(120, 4.0, -1.0, 0.0), "d")
        return seq
    seq.declare_channel("g", "rydberg_global")
    if prog == "both-bases":
        seq.declare_channel("d", "raman_local", "q1")
        seq.add(Pulse.ConstantPulse(100, 3.0, 0.0, 0.0), "g")
        seq.add(Pulse.ConstantPulse(80, 4.0, 1.0, 1.0), "d", "no-delay")
        return seq
    if prog == "idle":
        seq.add(Pulse.ConstantPulse(60, 5.0, 0.0, 0.0), "g")
        seq.delay(150, "g")
        return seq
    if prog in ("lead-idle", "long-idle"):  # an idle period BEFORE (and after) a short pulse
        d = 300 if prog == "lead-idle" else 3000
        seq.delay(d, "g")
        seq.add(Pulse.ConstantPulse(20, 40.0, 0.0, 0.0), "g")
        seq.delay(d, "g")
        return seq
    if prog == "detuned":
        seq.add(Pulse.ConstantPulse(150, 3.0, 4.0, 1.0), "g")
        return seq
    if prog == "zero-drive":
        seq.add(Pulse.ConstantPulse(100, 0.0, 0.0, 0.0), "g")
        return seq
    seq.add(Pulse.ConstantPulse(200, 4.0, 0.0, 0.0), "g")
    return seq


def check_phys(prog, noise, ev, rate):
    from pulser.backend import Occupation, StateResult
    from pulser.noise_model import NoiseModel
    from pulser_simulation import QutipBackendV2, QutipConfig, QutipEmulator, SimConfig

    out = []
    with warnings.catch_warnings():
        warnings.simplefilter("ignore")
        seq = build_prog(prog)
        kw = dict(NOISES[noise])
        if prog in ("digital",) and "dephasing_rate" in kw and noise == "dephasing":
            pass
        try:
            nm = NoiseModel(**kw)
        except Exception:
            return [("@noise-not-constructible", "")]
        times = {"Full": "Full", "default": (1.0,), "list": (0.0, 0.25, 0.5, 1.0), "per-observable": (1.0,)}[ev]
        obs = [StateResult(evaluation_times=(0.0, 0.3, 1.0) if ev == "per-observable" else None)]
        try:
            cfg = QutipConfig(observables=obs, default_evaluation_times=times, noise_model=nm, sampling_rate=rate)
            backend = QutipBackendV2(seq, config=cfg)
        except Exception as e:
            return [("@config-refused", type(e).__name__)]
        # legacy run with the same configuration
        legacy_err = None
        try:
            sim = QutipEmulator.from_sequence(seq, sampling_rate=rate, config=SimConfig.from_noise_model(nm))
            sim.set_evaluation_times("Full")
            leg = sim.run()
        except Exception as e:
            legacy_err = e
        try:
            res = backend.run()
        except Exception as e:
            if legacy_err is None:
                return [(f"C11:v2-raises-where-legacy-runs:{type(e).__name__}", f"{prog}/{noise}/{ev}/rate={rate}: {e}"[:200])]
            return [("@both-refuse", "")]
        tag = obs[0].tag
        ts = res.get_result_times(tag)
        if list(ts) != sorted(ts):
            out.append(("C11:evaluation-times-not-ascending", f"{ts}"))
        dissip = bool(kw)
        init = None
        for t in ts:
            st = res.get_result(tag, t).to_qobj()
            if st.isket:
                v = st.full().ravel()
                n = float(np.sum(np.abs(v) ** 2))
                if abs(n - 1) > 1e-5:
                    out.append((f"C11:norm-not-preserved:{noise}", f"{prog}/{ev} t={t}: {n}"))
                rho = np.outer(v, v.conj())
            else:
                rho = st.full()
                tr = float(np.trace(rho).real)
                if abs(tr - 1) > 1e-5:
                    out.append((f"C11:trace-not-one:{noise}", f"{prog}/{ev}/rate={rate} t={t}: trace {tr}"))
                if np.abs(rho - rho.conj().T).max() > 1e-9:
                    out.append((f"C11:not-hermitian:{noise}", f"{prog}/{ev} t={t}"))
                lam = float(np.linalg.eigvalsh((rho + rho.conj().T) / 2).min())
                if lam < -1e-6:
                    out.append((f"C11:not-positive:{noise}", f"{prog}/{ev} t={t}: min eigenvalue {lam}"))
            if init is None:
                init = rho
            if prog == "zero-drive" and not dissip and np.abs(rho - init).max() > 1e-9:
                out.append(("C11:zero-drive-changes-state", f"{ev} t={t}"))
            # legacy vs V2 at the same time
            if legacy_err is None:
                ls = None
                st_times = np.asarray(leg._sim_times, dtype=float)
                t_abs = t * res.total_duration * 1e-3
                k = int(np.argmin(np.abs(st_times - t_abs)))
                if abs(st_times[k] - t_abs) < 1e-9:
                    ls = leg.states[k]
                    ctx_compared = True
                if ls is not None:
                    lr = ls.full()
                    lrho = np.outer(lr.ravel(), lr.ravel().conj()) if ls.isket else lr
                    if lrho.shape == rho.shape and np.abs(lrho - rho).max() > 2e-4:
                        out.append((f"C11:v2-state-differs-from-legacy:{noise}", f"{prog}/{ev}/rate={rate} t={t}: max diff {np.abs(lrho - rho).max():.3g}"))
        # the same configuration handed over as a GENERIC EmulationConfig (backend-specific options such as the sampling rate travel as
        # extra keyword arguments): same run as with the backend's own configuration class
        if ev == "default":
            from pulser.backend import EmulationConfig

            try:
                gen = EmulationConfig(observables=[StateResult()], default_evaluation_times=times, noise_model=nm, sampling_rate=rate)
                gres = QutipBackendV2(seq, config=gen).run()
                gtag = gres.get_result_tags()[0]
                gst = gres.get_result(gtag, gres.get_result_times(gtag)[-1]).to_qobj()
                gm = gst.full()
                grho = np.outer(gm.ravel(), gm.ravel().conj()) if gst.isket else gm
                if grho.shape != rho.shape or np.abs(grho - rho).max() > 1e-7:
                    out.append((f"C11:generic-config-run-differs-from-the-backend-config-run:rate={rate}", f"{prog}/{noise}: final states differ by {np.abs(grho - rho).max() if grho.shape == rho.shape else 'shape'}"))
            except Exception as e:
                out.append((f"C11:generic-config-refused:{type(e).__name__}", f"{prog}/{noise}/rate={rate}: {e}"[:200]))
        # further entry points on the same program (once per program / noise): the older QutipBackend with an EmulatorConfig, and
        # both backends told to prefer the DEVICE's default noise model (which is then this noise model, the config's own being empty)
        if ev == "default" and rate == 1.0 and legacy_err is None:
            import dataclasses

            from pulser.backend.config import EmulatorConfig
            from pulser_simulation import QutipBackend

            def final_rho(x):
                m = x.full()
                return np.outer(m.ravel(), m.ravel().conj()) if x.isket else m

            ref = final_rho(leg.states[-1])
            runs = {}
            try:
                runs["v1-backend"] = lambda: final_rho(QutipBackend(seq, config=EmulatorConfig(noise_model=nm, sampling_rate=rate, evaluation_times="Full")).run().states[-1])
                if kw:
                    dseq = seq.switch_device(dataclasses.replace(seq.device, name="W_with_default_noise", default_noise_model=nm))
                    runs["v1-backend:device-noise"] = lambda: final_rho(QutipBackend(dseq, config=EmulatorConfig(
                        prefer_device_noise_model=True, sampling_rate=rate, evaluation_times="Full")).run().states[-1])

                    def v2dev():
                        r = QutipBackendV2(dseq, config=QutipConfig(observables=[StateResult()], prefer_device_noise_model=True, sampling_rate=rate)).run()
                        return final_rho(r.get_result(StateResult().tag if False else r.get_result_tags()[0], r.get_result_times(r.get_result_tags()[0])[-1]).to_qobj())

                    runs["v2:device-noise"] = v2dev
            except Exception as e:
                out.append((f"C11:entry-point-setup-raises:{type(e).__name__}", f"{prog}/{noise}: {e}"[:200]))
            for label, fn in runs.items():
                try:
                    got = fn()
                except Exception as e:
                    out.append((f"C11:entry-point-raises:{label}:{type(e).__name__}", f"{prog}/{noise}: {e}"[:200]))
                    continue
                if got.shape != ref.shape or np.abs(got - ref).max() > 2e-4:
                    out.append((f"C11:entry-point-state-differs-from-legacy:{label}:{noise}", f"{prog}: max diff {np.abs(got - ref).max() if got.shape == ref.shape else 'shape'}"))
    return out + [("@phys", "")]



# ---- B2. reduced states of multi-level runs ---------------------------------------------------------------------------------
def reduce_cases(tier):
    return [("reduce", prog, basis, normalize) for prog in ("both-bases", "both-bases-weak") for basis in ("ground-rydberg", "digital")
            for normalize in (True, False)]


def check_reduce(prog, basis, normalize):
    """CoherentResults.get_state(t, reduce_to_basis=...) of a three-level run: the kept components are the projection of the full
    state (up to a global phase), of unit norm when normalize=True."""
    from pulser import Pulse, Register, Sequence
    from pulser_simulation import QutipEmulator

    if prog == "both-bases":
        seq = build_prog("both-bases")
    else:  # one atom, a weak Raman pulse leaving a few percent in h, then a Rydberg pulse
        seq = Sequence(Register({"q0": (0.0, 0.0)}), world_device())
        seq.declare_channel("d", "raman_global")
        seq.declare_channel("g", "rydberg_global")
        seq.add(Pulse.ConstantPulse(100, 4.0, 0.0, 0.0), "d")
        seq.add(Pulse.ConstantPulse(120, 6.0, 0.0, 0.0), "g")
    sim = QutipEmulator.from_sequence(seq)
    res = sim.run()
    n = len(seq.register.qubit_ids)
    keep_levels = {"ground-rydberg": (0, 1), "digital": (1, 2)}[basis]  # basis 'all' = (r, g, h) per atom
    keep = [i for i in range(3**n) if all(((i // 3**(n - 1 - k)) % 3) in keep_levels for k in range(n))]
    out = []
    times = list(res._sim_times)
    for t in (times[0], times[len(times) // 3], times[len(times) // 2], times[-1]):
        full = res.get_state(t).full().ravel()
        proj = full[keep]
        pn = float(np.linalg.norm(proj))
        if pn < 1e-6:
            continue
        try:
            got = res.get_state(t, reduce_to_basis=basis, tol=1.0, normalize=normalize).full().ravel()
        except Exception as e:
            out.append((f"C11:reduced-state-raises:{basis}:{type(e).__name__}", f"{prog} t={t}: {e}"[:200]))
            continue
        if got.shape != proj.shape:
            out.append((f"C11:reduced-state-dimension:{basis}", f"{prog} t={t}: {got.shape} vs {proj.shape}"))
            continue
        gn = float(np.linalg.norm(got))
        want_norm = 1.0 if normalize else pn
        if abs(gn - want_norm) > 1e-6:
            out.append((f"C11:reduced-state-norm:{basis}:normalize={normalize}", f"{prog} t={t}: norm {gn:.6f}, expected {want_norm:.6f} "
                        f"(population kept {pn**2:.4f})"))
        elif abs(abs(np.vdot(proj, got)) - pn * gn) > 1e-6:
            out.append((f"C11:reduced-state-not-the-projection:{basis}:normalize={normalize}", f"{prog} t={t}"))
    return out + [("@reduce", "")]


# ---- C. bitstring conventions ---------------------------------------------------------------------------
BASES = {
    "ground-rydberg": (("r", "g"), "ground-rydberg", "r"),
    "digital": (("g", "h"), "digital", "h"),
    "XY": (("u", "d"), "XY", "d"),
    "all": (("r", "g", "h"), None, None),
    "ground-rydberg_with_error": (("r", "g", "x"), "ground-rydberg", "r"),
    "digital_with_error": (("g", "h", "x"), "digital", "h"),
    "XY_with_error": (("u", "d", "x"), "XY", "d"),
    "all_with_error": (("r", "g", "h", "x"), None, None),
}


def conv_cases(tier):
    out = []
    for bname, (states, meas, one) in BASES.items():
        nmax = 4 if len(states) == 2 else (3 if tier == "thorough" or len(states) == 3 else 2)
        for n in range(1, nmax + 1):
            for tup in itertools.product(range(len(states)), repeat=n):
                for mb in ([meas] if meas else ["ground-rydberg", "digital"]):
                    out.append(("conv", bname, tup, mb))
        # superpositions / mixtures populating SEVERAL basis states that map to the same bitstring
        for n in (1, 2):
            for mb in ([meas] if meas else ["ground-rydberg", "digital"]):
                for kind in ("uniform", "weighted"):
                    out.append(("convsup", bname, n, mb, kind))
    return out


def check_convsup(bname, n, mb, kind):
    import qutip
    from pulser_simulation.qutip_result import QutipResult
    from pulser_simulation.qutip_state import QutipState

    states = BASES[bname][0]
    one = {"ground-rydberg": "r", "digital": "h", "XY": "d"}[mb]
    dim = len(states)
    tups = list(itertools.product(range(dim), repeat=n))
    w = np.array([1.0 + (k % 3 if kind == "weighted" else 0) for k in range(len(tups))])
    w = w / w.sum()
    exp = {}
    for tup, p in zip(tups, w):
        b = "".join("1" if states[i] == one else "0" for i in tup)
        exp[b] = exp.get(b, 0.0) + float(p)
    ket = sum(math.sqrt(p) * qutip.tensor([qutip.basis(dim, i) for i in tup]) for tup, p in zip(tups, w))
    dm = sum(p * qutip.tensor([qutip.basis(dim, i) for i in tup]).proj() for tup, p in zip(tups, w))
    out = []
    for label, st in (("ket", ket), ("pure-dm", ket.proj()), ("mixed-dm", dm)):
        try:
            qr = QutipResult(tuple(f"q{i}" for i in range(n)), mb, st, bname != "all")
            got = {k: float(v) for k, v in qr.sampling_dist.items() if v > 1e-12}
            if set(got) != set(exp) or any(abs(got[k] - exp[k]) > 1e-9 for k in exp):
                out.append((f"C11:bitstring-distribution:legacy:{bname}:{mb}:{label}", f"{kind} over all {dim}^{n} basis states -> {got}, documented {exp}"))
        except Exception as e:
            out.append((f"C11:bitstring-distribution-raises:legacy:{bname}:{type(e).__name__}", f"{label}: {e}"[:200]))
        try:
            bp = QutipState(st, eigenstates=states).bitstring_probabilities(one_state=one)
            got = {k: float(v) for k, v in bp.items() if v > 1e-12}
            if set(got) != set(exp) or any(abs(got[k] - exp[k]) > 1e-9 for k in exp):
                out.append((f"C11:bitstring-distribution:v2:{bname}:{mb}:{label}", f"{kind} over all {dim}^{n} basis states -> {got}, documented {exp}"))
        except Exception as e:
            out.append((f"C11:bitstring-distribution-raises:v2:{bname}:{type(e).__name__}", f"{label}: {e}"[:200]))
    return out + [("@conv", "")]


def check_conv(bname, tup, mb):
    import qutip
    from pulser_simulation.qutip_result import QutipResult
    from pulser_simulation.qutip_state import QutipState

    states = BASES[bname][0]
    one = {"ground-rydberg": "r", "digital": "h", "XY": "d"}[mb]
    n = len(tup)
    dim = len(states)
    exp = "".join("1" if states[i] == one else "0" for i in tup)
    out = []
    ket = qutip.tensor([qutip.basis(dim, i) for i in tup])
    for as_dm in (False, True):
        st = ket.proj() if as_dm else ket
        # legacy result object
        matching = bname != "all"  # 'all' = three-level state measured in one of its two bases
        try:
            qr = QutipResult(tuple(f"q{i}" for i in range(n)), mb, st, matching)
            dist = qr.sampling_dist
            got = {k: v for k, v in dist.items() if v > 1e-12}
            if set(got) != {exp} or abs(sum(dist.values()) - 1) > 1e-9:
                out.append((f"C11:bitstring-convention:legacy:{bname}:{mb}", f"state {''.join(states[i] for i in tup)} ({'dm' if as_dm else 'ket'}) -> {got}, documented {exp}"))
        except Exception as e:
            out.append((f"C11:bitstring-convention-raises:legacy:{bname}:{type(e).__name__}", f"{tup} {mb}: {e}"[:200]))
        # V2 state object
        try:
            qs = QutipState(st, eigenstates=states)
            bp = qs.bitstring_probabilities(one_state=one)
            if set(k for k, v in bp.items() if v > 1e-12) != {exp} or abs(sum(bp.values()) - 1) > 1e-9:
                out.append((f"C11:bitstring-convention:v2:{bname}:{mb}", f"state {''.join(states[i] for i in tup)} -> {dict(bp)}, documented {exp}"))
            if bname in ("ground-rydberg", "digital", "XY") or (bname == "all" and False):
                if qs.infer_one_state() != BASES[bname][2]:
                    out.append((f"C11:infer-one-state:{bname}", f"{qs.infer_one_state()}"))
        except Exception as e:
            out.append((f"C11:bitstring-convention-raises:v2:{bname}:{type(e).__name__}", f"{tup} {mb}: {e}"[:200]))
    return out + [("@conv", "")]


# ---- D. EnvX: sampling and detection-error tapes --------------------------------------------------------------
class Tape:
    """Scripted replacement of numpy.random.rand / uniform (the only randomness the sampling code draws)."""

    def __init__(self, values):
        self.values = list(values)
        self.pos = 0

    def draw(self, n):
        if self.pos + n > len(self.values):
            raise RuntimeError("tape exhausted")
        v = self.values[self.pos:self.pos + n]
        self.pos += n
        return np.array(v, dtype=float)

    def rand(self, *shape):
        n = int(np.prod(shape)) if shape else 1
        return self.draw(n).reshape(shape) if shape else float(self.draw(1)[0])

    def uniform(self, low=0.0, high=1.0, size=None):
        shape = (size,) if isinstance(size, int) else tuple(size or ())
        n = int(np.prod(shape)) if shape else 1
        return self.draw(n).reshape(shape)


def tape_cases(tier):
    out = []
    dists = [
        ("r", 1, {"r": 1.0}),
        ("mix1", 1, {"r": 0.25, "g": 0.75}),
        ("mix2", 2, {"rr": 0.5, "rg": 0.125, "gg": 0.375}),
        ("zero-first", 2, {"gr": 0.6, "gg": 0.4}),  # lexicographically first outcomes have probability 0
    ]
    for name, n, d in dists:
        cums = np.cumsum(sorted(d.values()))
        for shots in (1, 2):
            probs = list(d.values())
            c = np.cumsum(probs)
            menu = sorted({0.0, 1 - 1e-12} | {float(x) for x in c[:-1]} | {float(x) - 1e-9 for x in c} | {float(x) + 1e-9 for x in c[:-1]})
            for us in itertools.product(menu, repeat=shots):
                for pfp, pfn in ((0.0, 0.0), (0.25, 0.0), (0.0, 0.5), (0.25, 0.5)):
                    if pfp == 0.0 and pfn == 0.0:
                        out.append(("tape", name, n, shots, us, pfp, pfn, ()))
                        continue
                    fmenu = sorted({0.0, 1 - 1e-12} | {r - 1e-9 for r in (pfp, pfn) if r} | {r for r in (pfp, pfn) if r} | {r + 1e-9 for r in (pfp, pfn) if r})
                    if shots * n > 2 and tier == "quick":
                        fm = fmenu[::2]
                    else:
                        fm = fmenu
                    for fs in itertools.product(fm, repeat=shots * n):
                        out.append(("tape", name, n, shots, us, pfp, pfn, fs))
    return out


DISTS = {"r": {"r": 1.0}, "mix1": {"r": 0.25, "g": 0.75}, "mix2": {"rr": 0.5, "rg": 0.125, "gg": 0.375}, "zero-first": {"gr": 0.6, "gg": 0.4}}


def check_tape(name, n, shots, us, pfp, pfn, fs):
    import qutip
    from pulser_simulation.qutip_state import QutipState

    d = DISTS[name]
    # density matrix with the given diagonal
    dim = 2 ** n
    diag = np.zeros(dim)
    for k, p in d.items():
        idx = int("".join("0" if ch == "r" else "1" for ch in k), 2)
        diag[idx] = p
    rho = qutip.Qobj(np.diag(diag), dims=[[2] * n, [2] * n])
    qs = QutipState(rho, eigenstates=("r", "g"))
    tape = Tape(list(us) + list(fs))
    import numpy.random as npr

    saved = (npr.rand, npr.uniform)
    npr.rand, npr.uniform = tape.rand, tape.uniform
    try:
        got = qs.sample(num_shots=shots, one_state="r", p_false_pos=pfp, p_false_neg=pfn)
    except Exception as e:
        return [(f"C11:sampling-raises:{type(e).__name__}", f"{name} u={us} f={fs}: {e}"[:200])]
    finally:
        npr.rand, npr.uniform = saved
    if tape.pos != len(tape.values):
        return [("@tape-not-consumed", f"{tape.pos}/{len(tape.values)}")]
    # reference: outcome i has the half-open interval (c_{i-1}, c_i] in the order the implementation lists the bitstrings
    bp = qs.bitstring_probabilities(one_state="r", cutoff=1 / (1000 * shots))
    keys = list(bp)
    c = np.cumsum([float(bp[k]) for k in keys])
    exp = Counter()
    out = []
    shots_bits = []
    ambiguous = False
    for u in us:
        # outcome i owns [c_{i-1}, c_i); a draw exactly on a boundary may go to either neighbour of positive probability
        i = min(int(np.searchsorted(c, u, side="right")), len(keys) - 1)
        if any(abs(u - x) < 1e-15 for x in c[:-1]):
            ambiguous = True
        shots_bits.append(keys[i])
    for k_, v_ in got.items():
        if float(bp.get(k_, 0.0)) <= 0 and not (pfp or pfn):
            out.append(("C11:zero-probability-outcome-sampled", f"{name}: u={us} gives {k_}"))
    fl = list(fs)
    for s in shots_bits:
        bits = [int(ch) for ch in s]
        if pfp or pfn:
            for j, b in enumerate(bits):
                u = fl.pop(0)
                rate = pfn if b == 1 else pfp
                if u < rate:
                    bits[j] = 1 - b
        exp["".join(map(str, bits))] += 1
    if Counter(got) != exp and not ambiguous:
        out.append(("C11:sampling-differs-from-tape-reference", f"{name} shots={shots} u={us} f={fs} rates=({pfp},{pfn}): {dict(got)} vs {dict(exp)}"))
    if sum(got.values()) != shots:
        out.append(("C11:shot-count", f"{sum(got.values())} != {shots}"))
    return out + [("@tape", "")]


# ---- D2. legacy results object: detection errors under RNG tapes (one- and two-sided rates) --------------------------
def legacy_tape_cases(tier):
    out = []
    for eps, epsp in ((0.0, 0.0), (0.25, 0.0), (0.0, 0.5), (0.25, 0.5)):
        for st in ("r", "g", "rg", "gr"):
            n = len(st)
            shots = 2 if n == 1 else 1
            fmenu = sorted({0.0, 1 - 1e-12} | {x - 1e-9 for x in (eps, epsp) if x} | {x for x in (eps, epsp) if x} | {x + 1e-9 for x in (eps, epsp) if x})
            for us in itertools.product((0.0, 0.5, 1 - 1e-12), repeat=shots):
                for fs in itertools.product(fmenu, repeat=shots * n) if (eps or epsp) else [()]:
                    out.append(("ltape", st, eps, epsp, shots, us, fs))
    return out


def check_legacy_tape(st, eps, epsp, shots, us, fs):
    """CoherentResults.sample_state with measurement errors: bits flip exactly where the tape value is below the
    configured rate for that bit value (epsilon: 0 read as 1, epsilon_prime: 1 read as 0)."""
    import numpy.random as npr
    import qutip
    from pulser_simulation.qutip_result import QutipResult
    from pulser_simulation.simresults import CoherentResults

    n = len(st)
    ket = qutip.tensor([qutip.basis(2, 0 if ch == "r" else 1) for ch in st])
    order = tuple(f"q{i}" for i in range(n))
    qr = QutipResult(order, "ground-rydberg", ket, True)
    res = CoherentResults([qr], n, "ground-rydberg", np.array([0.0]), "ground-rydberg", {"epsilon": eps, "epsilon_prime": epsp})
    tape = Tape(list(us) + list(fs))
    saved = (npr.rand, npr.uniform)
    npr.rand, npr.uniform = tape.rand, tape.uniform
    try:
        got = res.sample_state(0.0, n_samples=shots)
    except Exception as e:
        return [(f"C11:legacy-sampling-raises:{type(e).__name__}", f"state {st} eps=({eps},{epsp}) u={us} f={fs}: {e}"[:200])]
    finally:
        npr.rand, npr.uniform = saved
    ideal = "".join("1" if ch == "r" else "0" for ch in st)
    exp = Counter()
    fl = list(fs)
    for _ in range(shots):
        bits = [int(c) for c in ideal]
        if eps or epsp:
            for j, b in enumerate(bits):
                u = fl.pop(0) if fl else None
                if u is None:
                    return [("@tape-shape", "")]
                if u < (epsp if b == 1 else eps):
                    bits[j] = 1 - b
        exp["".join(map(str, bits))] += 1
    out = []
    if (eps or epsp) and tape.pos != len(tape.values):
        # the implementation may skip the flip draws only when no flip can occur
        if any(u < max(eps, epsp) for u in fs):
            out.append((f"C11:detection-errors-not-applied:legacy:{'one-sided' if not (eps and epsp) else 'two-sided'}", f"state {st} eps=({eps},{epsp}): flip draws not consumed"))
    if Counter(got) != exp:
        out.append((f"C11:detection-errors-differ-from-tape:legacy:{'one-sided' if not (eps and epsp) else 'two-sided'}",
                    f"state {st} eps=({eps},{epsp}) f={fs}: {dict(got)} vs {dict(exp)}"))
    return out + [("@ltape", "")]


# ---- legacy noisy path (NoisyResults): deterministic corners --------------------------------------------------------------
# QutipEmulator.run() returns sampled NoisyResults as soon as amplitude noise or state-preparation errors are configured.  With
# eta in {0, 1}, a vanishing amplitude spread and detection-error rates in {0, 1} every bit of every shot is determined, whatever
# the random draws: badly prepared atoms are never excited, r / h read as 1, epsilon turns every 0 into 1 and epsilon' every 1 into 0.
def lnoisy_cases(tier):
    out = []
    for basis, n, pulse, path, eps, epsp in itertools.product(("ground-rydberg", "digital"), (1, 2), ("pi", "2pi", "idle"),
                                                               ("eta=1", "amp~0", "eta=1+amp~0"), (0.0, 1.0), (0.0, 1.0)):
        if pulse == "idle" and basis == "digital":
            continue  # a sequence that drives nothing addresses no basis: the emulator then works in ground-rydberg
        out.append(("lnoisy", basis, n, pulse, path, eps, epsp))
    return out


def check_lnoisy(basis, n, pulse, path, eps, epsp):
    import qutip
    from pulser import Pulse, Register, Sequence
    from pulser_simulation import QutipEmulator, SimConfig

    dev = world_device()
    reg = Register({f"q{i}": (60.0 * i, 0.0) for i in range(n)})
    seq = Sequence(reg, dev)
    seq.declare_channel("c", "rydberg_global" if basis == "ground-rydberg" else "raman_global")
    area = {"pi": math.pi, "2pi": 2 * math.pi, "idle": 0.0}[pulse]
    if area:
        seq.add(Pulse.ConstantPulse(500, area / 0.5, 0.0, 0.0), "c")
    else:
        seq.delay(500, "c")
        seq.add(Pulse.ConstantPulse(16, 0.0, 0.0, 0.0), "c")
    noise = ("SPAM",) + (("amplitude",) if "amp" in path else ())
    eta = 1.0 if "eta=1" in path else 0.0
    try:
        cfg = SimConfig(noise=noise, eta=eta, epsilon=eps, epsilon_prime=epsp, amp_sigma=1e-9 if "amp" in path else 0.05, runs=3, samples_per_run=4,
                        laser_waist=1e9)  # amplitude noise also applies the beam's Gaussian profile: made flat here
        sim = QutipEmulator.from_sequence(seq, config=cfg)
    except Exception as e:
        return gridx.crash_finding(e, "configuring-the-emulator", f"{basis} {n} {pulse} {path}") or [("@noise-not-constructible", type(e).__name__)]
    res = sim.run()
    out = []
    if type(res).__name__ != "NoisyResults":
        return [("C11:legacy-noisy-run-not-sampled", f"{path}: run() returned {type(res).__name__}")]
    excited = (pulse == "pi") and eta == 0.0
    ideal = 1 if excited else 0
    bit = (0 if epsp == 1.0 else 1) if ideal == 1 else (1 if eps == 1.0 else 0)
    want = str(bit) * n
    tag = f"{basis}:{path}"
    final = res.sample_final_state() if hasattr(res, "sample_final_state") else None
    counts = dict(res.sample_final_state(N_samples=12)) if final is not None else {}
    raw = dict(res[-1].sampling_dist) if hasattr(res[-1], "sampling_dist") else {}
    got = {k: v for k, v in raw.items() if v > 1e-9}
    if set(got) != {want}:
        out.append((f"C11:legacy-noisy-bits:{tag}", f"{n} atom(s), {pulse} pulse, eps={eps}, eps'={epsp}: final distribution {got}, every shot must read {want}"))
    if res.n_measures != 12:
        out.append((f"C11:legacy-noisy-shot-count:{tag}", f"{res.n_measures} vs runs x samples_per_run = 12"))
    # the pseudo-density state and expect() follow the same convention (the state that reads as 1 first in ground-rydberg, second else)
    pos1 = 0 if basis == "ground-rydberg" else 1
    for i in range(n):
        ops = [qutip.qeye(2)] * n
        ops[i] = qutip.basis(2, pos1).proj()
        v = float(np.real(res.expect([qutip.tensor(ops)])[0][-1]))
        if abs(v - bit) > 1e-6:
            out.append((f"C11:legacy-noisy-expect:{tag}", f"{n} atom(s), {pulse} pulse, eps={eps}, eps'={epsp}: <P_1> on atom {i} = {v}, shots read {want}"))
            break
    st = res.get_final_state()
    d = np.real(np.diag(st.full()))
    if abs(d.sum() - 1) > 1e-9 or d.min() < -1e-12:
        out.append((f"C11:legacy-noisy-state-not-physical:{tag}", f"diagonal {d}"))
    return out + [("@lnoisy", "")]


def evset_cases(tier):
    """Explicit evaluation-time lists containing times closer than one sample (1 ns) to the start, to the end or to one another."""
    extras = [(), (0.0004,), (0.0001, 0.0009), (0.4996,), (0.2503,), (0.0004, 0.2503, 0.4996), (0.0, 0.0004), (0.00049,), (0.5,)]
    return [("evset", api, ex) for api in ("legacy", "v2") for ex in extras]


def check_evset(api, extra):
    """One atom, resonant constant drive of 10 rad/us for 500 ns: the state at every requested time t is the Rabi state
    (P_r = sin^2(5 t)), whatever OTHER times were requested with it."""
    from pulser import Pulse, Register, Sequence
    from pulser.backend import StateResult
    from pulser_simulation import QutipBackendV2, QutipConfig, QutipEmulator

    dev = world_device()
    seq = Sequence(Register({"q0": (0.0, 0.0)}), dev)
    seq.declare_channel("c", "rydberg_global")
    seq.add(Pulse.ConstantPulse(500, 10.0, 0.0, 0.0), "c")
    base = (0.1, 0.25, 0.5)
    times = sorted(set(base) | set(extra))
    out = []

    def p_of(st):
        v = st.full()
        return float(abs(v.ravel()[0]) ** 2) if st.isket else float(np.real(v[0, 0]))

    # reference for the final time: the same drive with the base times alone
    try:
        if api == "legacy":
            s0 = QutipEmulator.from_sequence(seq)
            s0.set_evaluation_times(list(base))
            ref_final = p_of(s0.run().get_state(0.5, t_tol=1e-9))
        else:
            ob0 = StateResult(evaluation_times=[t / 0.5 for t in base])
            r0 = QutipBackendV2(seq, config=QutipConfig(observables=[ob0])).run()
            ref_final = p_of(r0.get_result(ob0, r0.get_result_times(ob0)[-1]).to_qobj())
    except Exception as e:
        return gridx.crash_finding(e, "running-the-emulator", f"{api} {base}") or [(f"C11:evaluation-time-list-raises:{api}:{type(e).__name__}", f"{base}: {e}"[:220])]
    try:
        if api == "legacy":
            sim = QutipEmulator.from_sequence(seq)
            sim.set_evaluation_times(list(times))
            res = sim.run()
            got = {float(t): res.get_state(float(t), t_tol=1e-9) for t in times}
        else:
            ob = StateResult(evaluation_times=[t / 0.5 for t in times])
            r = QutipBackendV2(seq, config=QutipConfig(observables=[ob])).run()
            rt = r.get_result_times(ob)
            got = {}
            for t in times:
                m = [x for x in rt if abs(x - t / 0.5) < 1e-9]
                if not m:
                    out.append((f"C11:requested-evaluation-time-missing:{api}", f"times {times}: nothing stored for t={t} us (stored {list(rt)[:8]})"))
                    continue
                got[t] = r.get_result(ob, m[0]).to_qobj()
    except Exception as e:
        return gridx.crash_finding(e, "running-the-emulator", f"{api} {times}") or [(f"C11:evaluation-time-list-raises:{api}:{type(e).__name__}", f"{times}: {e}"[:220])]
    for t, st in got.items():
        p = p_of(st)
        exp = math.sin(5.0 * t) ** 2
        # the last half sample of a pulse that ends the sequence is interpolated by the emulator: the formula is demanded inside only,
        # the final time is compared with the run that requested the base times alone
        if t <= 0.45 and abs(p - exp) > 2e-5:
            out.append((f"C11:state-at-a-requested-time-depends-on-the-other-times:{api}", f"times {times}: P_r({t} us) = {p:.6f}, Rabi formula {exp:.6f}"))
            break
        if t == 0.5 and abs(p - ref_final) > 2e-5:
            out.append((f"C11:final-state-depends-on-the-other-times:{api}", f"times {times}: P_r(T) = {p:.6f}, with the base times alone {ref_final:.6f}"))
    return out + [("@evset", "")]



def initorder_cases(tier):
    """An initial state handed to the V2 backend as labelled amplitudes, with the eigenstates listed in either order."""
    return [("initorder", eig, lab) for eig in (("r", "g"), ("g", "r")) for lab in ("rg", "gr", "rr", "gg", "rg+gg")]


def check_initorder(eig, lab):
    """Nothing is driven, so the emulation ends in the state it started from: the state the LABELS say (or the configuration / run is
    refused) - never another one because the eigenstates were listed in another order."""
    from pulser import Pulse, Register, Sequence
    from pulser.backend import StateResult
    from pulser_simulation import QutipBackendV2, QutipConfig, QutipState

    dev = world_device()
    seq = Sequence(Register({"q0": (0.0, 0.0), "q1": (60.0, 0.0)}), dev)
    seq.declare_channel("c", "rydberg_global")
    seq.add(Pulse.ConstantPulse(100, 0.0, 0.0, 0.0), "c")
    amps = {k: 1.0 / math.sqrt(len(lab.split("+"))) for k in lab.split("+")}
    try:
        st = QutipState.from_state_amplitudes(eigenstates=tuple(eig), amplitudes=amps)
        ob = StateResult(evaluation_times=[1.0])
        r = QutipBackendV2(seq, config=QutipConfig(observables=[ob], initial_state=st)).run()
        fin = r.get_result(ob, 1.0)
        probs = {k: float(v) for k, v in fin.probabilities().items() if v > 1e-9}
    except (NotImplementedError, ValueError, TypeError):
        return [("@initial-state-refused", "")]
    want = {k: v * v for k, v in amps.items()}
    if set(probs) != set(want) or any(abs(probs[k] - want[k]) > 1e-6 for k in want):
        return [(f"C11:v2-starts-from-another-state-than-the-labelled-one:eigenstates={''.join(eig)}", f"initial amplitudes {amps} with eigenstates {tuple(eig)}: nothing driven, final probabilities {probs}")]
    return [("@initorder", "")]


def initform_cases(tier):
    """The same initial state handed over in every accepted FORM (array, Qobj, QutipState through V2) and with every overall factor: the
    emulator starts from the normalised state."""
    labs = ("rg", "rg+gg", "rr+gg", "rr+rg+gr") if tier == "quick" else ("rg", "gr", "rr", "rg+gg", "rr+gg", "rr+rg+gr", "rr+rg+gr+gg")
    return [("initform", form, sc, lab) for form in ("array", "qobj", "v2") for sc in (1.0, 2.0, 0.25, 3j) for lab in labs]


def check_initform(form, sc, lab):
    import qutip
    from pulser import Pulse, Register, Sequence
    from pulser.backend import StateResult
    from pulser_simulation import QutipBackendV2, QutipConfig, QutipEmulator, QutipState

    dev = world_device()
    seq = Sequence(Register({"q0": (0.0, 0.0), "q1": (60.0, 0.0)}), dev)
    seq.declare_channel("c", "rydberg_global")
    seq.add(Pulse.ConstantPulse(100, 0.0, 0.0, 0.0), "c")
    keys = lab.split("+")
    order = ["rr", "rg", "gr", "gg"]  # basis of the emulator: r = (1,0), g = (0,1), first atom most significant
    vec = np.array([sc * (1.0 if k in keys else 0.0) for k in order], dtype=complex)
    want = np.abs(vec) ** 2 / np.sum(np.abs(vec) ** 2)
    try:
        if form == "v2":
            st = QutipState(qutip.Qobj(vec.reshape(-1, 1), dims=[[2, 2], [1, 1]]), eigenstates=("r", "g"))
            ob = StateResult(evaluation_times=[1.0])
            r = QutipBackendV2(seq, config=QutipConfig(observables=[ob], initial_state=st)).run()
            fin = np.asarray(r.get_result(ob, 1.0).to_qobj().full()).ravel()
        else:
            sim = QutipEmulator.from_sequence(seq)
            sim.set_initial_state(vec if form == "array" else qutip.Qobj(vec.reshape(-1, 1), dims=[[2, 2], [1, 1]]))
            fin = np.asarray(sim.run().get_final_state().full()).ravel()
    except (NotImplementedError, ValueError, TypeError) as e:
        return gridx.crash_finding(e, "setting-the-initial-state", f"{form} {sc} {lab}") or [("@initial-state-refused", "")]
    got = np.abs(fin) ** 2
    if abs(got.sum() - 1.0) > 1e-6:
        return [(f"C11:emulated-state-is-not-normalised:initial-state-as-{form}", f"initial amplitudes {sc} x ({lab}): nothing driven, final state has squared norm {got.sum():.6g}")]
    if np.abs(got - want).max() > 1e-6:
        return [(f"C11:emulation-starts-from-another-state:initial-state-as-{form}", f"initial amplitudes {sc} x ({lab}): nothing driven, final probabilities {got.round(6).tolist()}, expected {want.round(6).tolist()}")]
    return [("@initform", "")]


def lspam_cases(tier):
    """Legacy state-preparation errors with 0 < eta < 1: WHICH atoms are badly prepared is decided by scripted uniform draws."""
    out = []
    for n in (1, 2, 3):
        for pats in itertools.product(list(itertools.product((0, 1), repeat=n)), repeat=2):
            if n == 3 and pats[0] != pats[1] and sum(pats[0]) + sum(pats[1]) not in (1, 3):
                continue
            out.append(("lspam", n, pats))
    return out


def check_lspam(n, pats):
    """Two runs; in run k atom i is badly prepared iff pats[k][i].  A pi pulse then excites exactly the well-prepared atoms, so the
    shots of run k all read the complement of pats[k]; 4 shots per run."""
    import numpy.random as npr
    from pulser import Pulse, Register, Sequence
    from pulser_simulation import QutipEmulator, SimConfig

    dev = world_device()
    seq = Sequence(Register({f"q{i}": (60.0 * i, 0.0) for i in range(n)}), dev)
    seq.declare_channel("c", "rydberg_global")
    seq.add(Pulse.ConstantPulse(500, math.pi / 0.5, 0.0, 0.0), "c")
    cfg = SimConfig(noise=("SPAM",), eta=0.5, epsilon=0.0, epsilon_prime=0.0, runs=2, samples_per_run=4)
    sim = QutipEmulator.from_sequence(seq, config=cfg)
    script = [np.array([0.25 if b else 0.75 for b in pat]) for pat in pats]  # below eta = badly prepared
    real_uniform = npr.uniform
    calls = {"k": 0}

    def scripted(low=0.0, high=1.0, size=None):
        if size == n and calls["k"] < len(script):
            calls["k"] += 1
            return script[calls["k"] - 1].copy()
        return real_uniform(low, high, size)

    npr.uniform = scripted
    try:
        res = sim.run()
    except Exception as e:
        return gridx.crash_finding(e, "running-the-emulator", f"{n} {pats}") or [(f"C11:legacy-spam-run-raises:{type(e).__name__}", f"{pats}: {e}"[:200])]
    finally:
        npr.uniform = real_uniform
    if calls["k"] != 2:
        return [("@script-not-consumed", str(calls["k"]))]
    want = Counter()
    for pat in pats:
        want["".join("0" if b else "1" for b in pat)] += 4
    got = {k: int(round(v * res.n_measures)) for k, v in dict(res[-1].sampling_dist).items() if v > 1e-9}
    if got != dict(want):
        return [("C11:legacy-spam-wrong-atoms-badly-prepared", f"{n} atom(s), badly prepared per run {pats}: shots {got}, expected {dict(want)}")]
    return [("@lspam", "")]


def lexpect_cases(tier):
    """CoherentResults.expect with detection errors (the measured pseudo-density state) in every basis, incl. the leakage bases."""
    out = []
    for bname, (states, meas, one) in BASES.items():
        if meas is None:
            continue
        for n in (1, 2):
            for tup in itertools.product(range(len(states)), repeat=n):
                for eps, epsp in ((0.0, 0.0), (0.1, 0.0), (0.0, 0.25), (0.1, 0.25)):
                    out.append(("lexpect", bname, tup, eps, epsp))
    return out


def check_lexpect(bname, tup, eps, epsp):
    """<P_1 on atom i> on the measured state == p1 (1 - eps') + (1 - p1) eps, with p1 the population of the state that reads as 1
    (r / h / d; the leaked state reads 0) - the convention the sampled bitstrings follow."""
    import qutip
    from pulser_simulation.qutip_result import QutipResult
    from pulser_simulation.simresults import CoherentResults

    states, mb, one = BASES[bname]
    n, dim = len(tup), len(states)
    ket = qutip.tensor([qutip.basis(dim, i) for i in tup])
    order = tuple(f"q{i}" for i in range(n))
    out = []
    try:
        qr = QutipResult(order, mb, ket, True)
        res = CoherentResults([qr], n, bname, np.array([0.0]), mb, {"epsilon": eps, "epsilon_prime": epsp})
        # position of the state that reads as 1 in the two-level measured space: r comes first in ground-rydberg, h / d second
        pos1 = 0 if mb == "ground-rydberg" else 1
        vals = []
        for i in range(n):
            ops = [qutip.qeye(2)] * n
            ops[i] = qutip.basis(2, pos1).proj()
            vals.append(float(np.real(res.expect([qutip.tensor(ops)])[0][0])))
    except Exception as e:
        return [(f"C11:measured-state-raises:{bname}:{type(e).__name__}", f"{tup} eps=({eps},{epsp}): {e}"[:200])]
    for i in range(n):
        p1 = 1.0 if states[tup[i]] == one else 0.0
        exp = p1 * (1 - epsp) + (1 - p1) * eps
        if abs(vals[i] - exp) > 1e-9:
            out.append((f"C11:measured-state-convention:{bname}:{'with' if (eps or epsp) else 'without'}-detection-errors",
                        f"state {''.join(states[j] for j in tup)}, atom {i}: <P_1> = {vals[i]:.6g}, documented {exp:.6g} (eps={eps}, eps'={epsp})"))
    return out + [("@lexpect", "")]


# ---- E. stochastic state-preparation errors: every pattern of bad atoms over the runs ---------------------------
STOCH_NOISE = {
    "spam": dict(state_prep_error=0.3),
    "spam+dephasing": dict(state_prep_error=0.3, dephasing_rate=0.4),
    "spam+relaxation": dict(state_prep_error=0.3, relaxation_rate=0.5),
    "spam+depolarizing": dict(state_prep_error=0.3, depolarizing_rate=0.2),
}


def stoch_cases(tier):
    out = []
    for prog, natoms in (("rabi", 1), ("two-atoms", 2)):
        for noise in STOCH_NOISE:
            for runs in ((2, 3) if tier == "quick" else (2, 3, 4)):
                if natoms * runs > (6 if tier == "quick" else 8):
                    continue
                for pattern in itertools.product((0, 1), repeat=natoms * runs):
                    out.append(("stoch", prog, noise, runs, pattern))
    return out


class _Const:
    def __init__(self, v):
        self.v = v

    def uniform(self, low=0.0, high=1.0, size=None):
        return np.full(size if size is not None else (), self.v)


def _run_v2_with_pattern(prog, noise, runs, pattern):
    """Final density matrix stored by the V2 backend when the bad-atom draws follow `pattern` (1 = badly prepared)."""
    import numpy.random as npr
    from pulser.backend import StateResult
    from pulser.noise_model import NoiseModel
    from pulser_simulation import QutipBackendV2, QutipConfig

    seq = build_prog(prog)
    nm = NoiseModel(runs=runs, samples_per_run=1, **STOCH_NOISE[noise])
    cfg = QutipConfig(observables=[StateResult()], noise_model=nm)
    saved = npr.uniform
    try:
        npr.uniform = _Const(0.99).uniform  # construction-time draws: all atoms well prepared
        backend = QutipBackendV2(seq, config=cfg)
        tape = Tape([0.1 if b else 0.9 for b in pattern])  # eta = 0.3
        npr.uniform = tape.uniform
        res = backend.run()
    finally:
        npr.uniform = saved
    if tape.pos != len(tape.values):
        raise RuntimeError(f"tape not consumed: {tape.pos}/{len(tape.values)}")
    st = res.get_result("state", 1.0).to_qobj()
    return st.full() if st.isoper else np.outer(st.full().ravel(), st.full().ravel().conj())


def check_stoch(prog, noise, runs, pattern):
    natoms = len(pattern) // runs
    out = []
    try:
        rho = _run_v2_with_pattern(prog, noise, runs, pattern)
    except Exception as e:
        return [(f"C11:stochastic-run-raises:{noise}:{type(e).__name__}", f"{prog} runs={runs} pattern={pattern}: {e}"[:200])]
    tr = float(np.trace(rho).real)
    configs = [tuple(pattern[i * natoms:(i + 1) * natoms]) for i in range(runs)]
    distinct = len(set(configs))
    tag = f"{noise}:{'repeated-configs' if distinct < runs else 'distinct-configs'}"
    if abs(tr - 1) > 1e-5:
        out.append((f"C11:trace-not-one:stochastic:{tag}", f"{prog} runs={runs} configs={configs}: trace {tr:.6f}"))
    if np.abs(rho - rho.conj().T).max() > 1e-9:
        out.append((f"C11:not-hermitian:stochastic:{tag}", f"{prog} {configs}"))
    lam = float(np.linalg.eigvalsh((rho + rho.conj().T) / 2).min())
    if lam < -1e-6:
        out.append((f"C11:not-positive:stochastic:{tag}", f"{prog} {configs}: {lam}"))
    # reference: repetition-weighted mixture of the single-configuration states
    ref = np.zeros_like(rho)
    for c in set(configs):
        ref = ref + configs.count(c) / runs * _run_v2_with_pattern(prog, noise, runs, tuple(c) * runs)
    if np.abs(ref - rho).max() > 2e-5:
        out.append((f"C11:stochastic-mixture-differs:{tag}", f"{prog} runs={runs} configs={configs}: max diff {np.abs(ref - rho).max():.3g}"))
    return out + [("@stoch", "")]



# ---- F. legacy emulator as a stateful object: every history of configuration calls ------------------------------------
# A QutipEmulator carries (configuration, initial state, evaluation times).  Every history of <= DEPTH calls over the menu
# below is executed on ONE emulator; a plain reference model tracks the net settings and a FRESH emulator is configured
# directly with them: the runs must agree state by state, a zero drive without noise must return the initial state, and a
# resonant pi pulse the analytic populations.
def _f_cfg(key):
    from pulser_simulation import SimConfig

    return {
        "default": SimConfig(),
        "detect": SimConfig(noise=("SPAM",), eta=0.0, epsilon=0.1, epsilon_prime=0.05),
        "dephasing": SimConfig(noise=("dephasing",), dephasing_rate=0.1),
        "relaxation": SimConfig(noise=("relaxation",), relaxation_rate=0.2),
    }[key]


F_PARAMS = {"detect": dict(eta=0.0, epsilon=0.1, epsilon_prime=0.05), "dephasing": dict(dephasing_rate=0.1),
            "relaxation": dict(relaxation_rate=0.2), "default": {}}
F_NOISE = {"detect": "SPAM", "dephasing": "dephasing", "relaxation": "relaxation"}
F_OPS = [("init", "plus"), ("init", "r"), ("init", "all-ground"),
         ("set", "default"), ("set", "detect"), ("set", "dephasing"), ("add", "detect"), ("add", "dephasing"), ("add", "relaxation"),
         ("reset",), ("eval", "Minimal"), ("eval", "list"), ("eval", 0.5), ("run",), ("observe",)]


def _f_state(label, n):
    import qutip

    if label == "all-ground":
        return "all-ground"
    if label == "plus":
        v = np.ones(2**n) / math.sqrt(2**n)
        return v
    return qutip.tensor([qutip.basis(2, 0)] * n)  # all-r: 'r' is the first basis state


def _f_apply(E, op, n, T):
    if op[0] == "init":
        E.set_initial_state(_f_state(op[1], n))
    elif op[0] == "set":
        E.set_config(_f_cfg(op[1]))
    elif op[0] == "add":
        E.add_config(_f_cfg(op[1]))
    elif op[0] == "reset":
        E.reset_config()
    elif op[0] == "eval":
        E.set_evaluation_times([0.0, T / 2000.0, T / 1000.0] if op[1] == "list" else op[1])
    elif op[0] == "run":  # an earlier run must not leave anything behind
        r = E.run()
        r.states[-1].full()[...] = 0.0
    elif op[0] == "observe":  # read-only uses, and the caller editing what they return
        E.get_hamiltonian(0.0).full()[...] = 0.0
        E.initial_state.full()[...] = 0.0
        np.asarray(E.evaluation_times)[...] = 0.0 if False else np.asarray(E.evaluation_times)
        E.config
        E.sampling_times


def emu_history_cases(tier):
    depth = 3 if tier == "quick" else 4
    out = []
    for prog in ("zero-drive", "rabi-pi"):
        for d in range(1, depth + 1):
            for h in itertools.product(range(len(F_OPS)), repeat=d):
                if tier == "quick" and d == 3 and prog == "rabi-pi" and not any(F_OPS[i][0] == "init" for i in h):
                    continue  # without a custom initial state the third level adds nothing for the second program
                out.append(("emuhist", prog, h))
    return out


def check_emu_history(prog, h):
    from pulser import Pulse, Register, Sequence
    from pulser_simulation import QutipEmulator, SimConfig

    dev = world_device()
    seq = Sequence(Register({"q0": (0.0, 0.0)}), dev)
    seq.declare_channel("g", "rydberg_global")
    T = 100
    seq.add(Pulse.ConstantPulse(T, 0.0 if prog == "zero-drive" else math.pi * 1000 / T, 0.0, 0.0), "g")
    n = 1
    E = QutipEmulator.from_sequence(seq, sampling_rate=1.0)
    # reference model of the net settings
    noises, params, init, ev = [], {}, "all-ground", None
    out = []
    for i in h:
        op = F_OPS[i]
        try:
            _f_apply(E, op, n, T)
        except Exception as e:
            return [(f"C11:emulator-history:call-raises:{op[0]}:{type(e).__name__}", f"{[F_OPS[j] for j in h]}: {e}"[:250])]
        if op[0] == "init":
            init = op[1]
        elif op[0] == "set":
            noises = [F_NOISE[op[1]]] if op[1] in F_NOISE else []
            params = dict(F_PARAMS[op[1]])
        elif op[0] == "add":
            if F_NOISE[op[1]] not in noises:
                noises.append(F_NOISE[op[1]])
                params.update(F_PARAMS[op[1]])
        elif op[0] == "reset":
            noises, params = [], {}
        elif op[0] == "eval":
            ev = op[1]
    hist = [F_OPS[j] for j in h]
    fp_tail = "+".join(sorted({F_OPS[j][0] for j in h}))
    # configuration reported by the object == the model's
    cfg = E.config
    want = SimConfig(noise=tuple(noises), **params)
    if set(cfg.noise) != set(want.noise) or any(abs(getattr(cfg, k) - v) > 1e-12 for k, v in params.items()):
        out.append((f"C11:emulator-history:config-differs:{fp_tail}", f"{hist}: emulator reports {cfg.noise} {[(k, getattr(cfg, k)) for k in params]}, "
                    f"calls amount to {want.noise} {params}"))
        return out
    F = QutipEmulator.from_sequence(seq, sampling_rate=1.0, config=want)
    if ev is not None:
        _f_apply(F, ("eval", ev), n, T)
    F.set_initial_state(_f_state(init, n))
    rE, rF = E.run(), F.run()
    tE, tF = np.asarray(rE._sim_times), np.asarray(rF._sim_times)
    if len(tE) != len(tF) or np.abs(tE - tF).max() > 1e-12:
        out.append((f"C11:emulator-history:times-differ:{fp_tail}", f"{hist}: {tE[:5]}.. vs fresh {tF[:5]}.."))
        return out
    worst = 0.0
    for a, b in zip(rE.states, rF.states):
        A_, B_ = a.full(), b.full()
        if A_.shape != B_.shape:
            worst = 9.0
            break
        worst = max(worst, float(np.abs(A_ - B_).max()))
    if worst > 1e-6:
        out.append((f"C11:emulator-history:run-differs-from-fresh-emulator:{fp_tail}",
                    f"{hist}: max |state - state of a fresh emulator with config {want.noise}, initial state {init}| = {worst:.3g}"))
    if not [x for x in noises if x != "SPAM"]:
        # unitary evolution: zero drive keeps the initial state; a resonant pi pulse swaps r and g
        psi0 = F.initial_state.full().ravel()
        psiT = rE.states[-1].full().ravel()
        if psiT.shape == psi0.shape:
            if prog == "zero-drive":
                fid = abs(np.vdot(psi0, psiT)) ** 2
                if abs(fid - 1) > 1e-6:
                    out.append((f"C11:emulator-history:zero-drive-changed-the-state:{fp_tail}", f"{hist}: fidelity with the initial state {init} = {fid:.6f}"))
            else:
                pr0 = abs(psi0[0]) ** 2
                prT = abs(psiT[0]) ** 2
                if abs(prT - (1 - pr0)) > 2e-3:
                    out.append((f"C11:emulator-history:pi-pulse-populations:{fp_tail}", f"{hist}: P(r) {pr0:.4f} -> {prT:.4f}, analytic {1 - pr0:.4f}"))
    return out + [("@emuhist", "")]


def worker(case):
    with warnings.catch_warnings():
        warnings.simplefilter("ignore")
        k = case[0]
        if k == "stoch":
            return check_stoch(*case[1:])
        if k == "emuhist":
            return check_emu_history(case[1], case[2])
        if k == "ltape":
            return check_legacy_tape(*case[1:])
        if k == "lexpect":
            return check_lexpect(*case[1:])
        if k == "lnoisy":
            return check_lnoisy(*case[1:])
        if k == "lspam":
            return check_lspam(*case[1:])
        if k == "evset":
            return check_evset(*case[1:])
        if k == "initorder":
            return check_initorder(*case[1:])
        if k == "initform":
            return check_initform(*case[1:])
        if k == "sweep":
            return sweep_case(case[1])
        if k == "phys":
            return check_phys(*case[1:])
        if k == "reduce":
            return check_reduce(*case[1:])
        if k == "piecewise":
            return check_piecewise(*case[1:])
        if k == "conv":
            return check_conv(*case[1:])
        if k == "convsup":
            return check_convsup(*case[1:])
        if k == "tape":
            return check_tape(*case[1:])
    return []


def run(tier, seed):
    res = Result("exploration")
    nmax = 1500 if tier == "quick" else 12000
    cases = [("sweep", T) for T in range(4, nmax + 1)]
    cases += piecewise_cases(tier) + phys_cases(tier) + reduce_cases(tier) + conv_cases(tier) + tape_cases(tier) + legacy_tape_cases(tier) + lexpect_cases(tier) + lnoisy_cases(tier) + lspam_cases(tier) + evset_cases(tier) + initorder_cases(tier) + initform_cases(tier) + stoch_cases(tier) + emu_history_cases(tier)
    outs = gridx.run(worker, cases, chunksize=8)
    classes = {}
    for c, r in zip(cases, outs):
        for fp, d in r:
            if fp.startswith("@"):
                classes[fp] = classes.get(fp, 0) + 1
            else:
                res.add(Violation(fp, d, {"engine": "emux", "case": repr(c)}))
    res.coverage = dict(
        evaluations=len(cases), distinct_nontrivial=sum(classes.get(k, 0) for k in ("@sweep", "@phys", "@conv", "@tape", "@ltape", "@stoch", "@emuhist", "@reduce", "@piecewise")), exhaustive=True,
        outcome_classes=classes, durations_swept=[4, nmax],
        rule="(A) every integer duration 4..N of a resonant constant pulse on a clock-1 device: legacy emulator norm and analytic Rabi "
             "population, V2 backend returns and stores the same final state; (B) 8 programs (Rabi, idle, detuned, two atoms, digital, "
             "two bases, XY, zero drive) x 7 noise configurations x 4 evaluation-time settings x sampling rates: every stored state "
             "normalised / unit-trace Hermitian positive, ascending times, V2 == legacy at equal times; (C) every basis-state tuple of "
             "1-4 atoms in each of the 8 eigenbases and measurement bases, as ket and density matrix: documented bitstring through the "
             "legacy result and the V2 state; (D) every tape of numpy.random answers (interval interiors and end points) for 1-2 shots "
             "on 4 distributions x 4 detection-error settings; (E) state-preparation errors with and without dissipation: every pattern "
             "of badly prepared atoms over 2-3 runs (RNG tape), stored state physical and equal to the repetition-weighted mixture; (F) the "
             "legacy emulator as a stateful object: every history of <= 3 (thorough 4) calls over 15 calls "
             "(set_initial_state x 3, set_config x 3, add_config x 3, reset_config, set_evaluation_times x 3, run, observers) on one emulator vs a "
             "fresh emulator configured directly with the net settings of a plain reference model, for a zero drive and a pi pulse",
        samples=[repr(cases[i])[:160] for i in (0, len(cases) // 2, len(cases) - 1)])
    res.assumptions = ["solver accuracy: norms / traces 1e-5, positivity -1e-6, V2 vs legacy states 2e-4 (different evaluation grids change the adaptive steps); the analytic Rabi value is "
                       "required to lie in the range spanned by effective durations [T-1, T] (sample interpolation of the last, padded sample)", "randomness is owned by replacing "
                       "numpy.random.rand / uniform in the harness process; a tape must be consumed exactly"]
    return res


def replay(payload):
    case = eval(payload["case"])
    return [Violation(fp, d, payload) for fp, d in worker(case) if not fp.startswith("@")]
