"""C13 — which building operations are accepted follows the documented typestate.

Engine 1 (concrete): SeqX over the whole building API; the abstract typestate model is folded over each
history; accept/refuse and observers must agree; histories in the same abstract mode must have the same
accept vector (mode-only check, no hand-written expectation).
Engine 2 (abstract): BFS over the *model's* reachable states to a fixpoint; every abstract transition is
bound to the code by replaying a witness history on the real Sequence.
"""
from __future__ import annotations

import multiprocessing as mp
import warnings

from mc import alphabets as A
from mc import seqx, snapshot
from mc.evidence import Result, Violation
from mc.typestate import Dev, St, fold, step
from mc.worlds import World, apply, corner

C52 = A.C52
ALPHA = [
    ("declare", "g", "rydberg_global"),
    ("declare", "g2", "rydberg_global"),
    ("declare", "l", "raman_local"),
    ("declare", "l2", "raman_local", "q0"),
    ("declare", "g", "raman_global"),
    ("declare", "m", "mw_global"),
    ("config_dmm", "m1", "dmm_0"),
    ("slm", ["q0"]),
    ("add", C52, "g"),
    ("add", C52, "l"),
    ("add", C52, "m"),
    ("add", C52, "dmm_0"),
    ("add_dmm", ["C", 52, -1.0], "dmm_0"),
    ("delay", 52, "g"),
    ("delay", 52, "l"),
    ("delay", 52, "dmm_0"),
    ("target", "q0", "l"),
    ("target", "q1", "g"),
    ("align", ("g", "l")),
    ("align", ("g", "g2")),
    ("phase_shift", 1.0, (), "ground-rydberg"),
    ("phase_shift", 1.0, (), "digital"),
    ("enable_eom", "g", 2.0, 0.0, 0.0, False),
    ("enable_eom", "l", 2.0, 0.0, 0.0, False),
    ("eom_pulse", "g", 52, 0.0, 0.0, "min-delay", False),
    ("modify_eom", "g", 1.0, 0.0, 0.0, False),
    ("disable_eom", "g", False),
    ("enable_eom", "g2", 2.0, 0.0, 0.0, False),
    ("eom_pulse", "g2", 52, 0.0, 0.0, "min-delay", False),
    ("disable_eom", "g2", False),
    ("add", C52, "g2"),
    ("add", C52, "l2"),
    ("target", "q1", "l2"),
    ("config_dmm", "m2", "dmm_1"),
    ("add_dmm", ["C", 52, -1.0], "dmm_1"),
    ("measure", "ground-rydberg"),
    ("measure", "XY"),
    ("declare_var", "x"),
    ("delay_v", "x", "g"),
    ("add_v", "x", 52, "l"),
    ("add_v", "x", 52, "g"),
    ("eom_pulse_v", "x", "g"),
    ("ro", "duration"),
    ("ro", "str"),
    ("magfield", 0.0, 0.0, 30.0),
]


def sig(op):
    parts = [op[0]]
    for a in op[1:]:
        if isinstance(a, str):
            parts.append(a)
        elif isinstance(a, (tuple, list)) and a and all(isinstance(x, str) for x in a) and op[0] in ("align",):
            parts.append("+".join(a))
    return ":".join(parts)


def observers(seq, st, dev):
    """Observers of the real sequence vs the model state."""
    out = []
    names = set(seq.declared_channels)
    if names != set(st.names()):
        out.append(("declared_channels", f"{sorted(names)} vs model {sorted(st.names())}"))
    if seq.is_parametrized() != st.param:
        out.append(("is_parametrized", f"{seq.is_parametrized()} vs model {st.param}"))
    if seq.is_measured() != st.measured:
        out.append(("is_measured", f"{seq.is_measured()} vs model {st.measured}"))
    for c in st.chans:
        if c[0] in names and not c[4]:
            try:
                e = seq.is_in_eom_mode(c[0])
            except Exception as ex:  # pragma: no cover
                e = repr(ex)
            if e != c[2]:
                out.append((f"is_in_eom_mode", f"{c[0]}: {e} vs model {c[2]}"))
    # available channels (non-DMM ids; DMM ids outside XY)
    from mc.typestate import id_available, is_dmm

    avail = set(seq.available_channels)
    for i in dev.ids + dev.dmm_ids:
        if is_dmm(i) and st.kind == "xy":
            continue
        if (i in avail) != id_available(st, dev, i):
            out.append(("available_channels", f"{i}: listed={i in avail}, model={id_available(st, dev, i)}"))
    return out


DEV = {}


def _dev(world):
    if world.name not in DEV:
        DEV[world.name] = Dev.of(world)
    return DEV[world.name]


def typestate(ctx):
    dev = _dev(ctx.world)
    st = fold(tuple(ctx.world.prefix) + tuple(ctx.history), dev)
    if st is None:
        ctx.act["histories_beyond_a_divergence"] += 1
        return []
    v, n = step(st, ctx.op, dev)
    accepted = ctx.exc is None
    out = [("@mode", repr(st) + "|" + ("A" if accepted else "R"))]
    ctx.act["model_compared"] += 1
    s = sig(ctx.op)
    if v is None:
        ctx.act["model_dont_care"] += 1
    elif v and not accepted:
        out.append((f"C13:refused-in-accepting-mode:{s}:{type(ctx.exc).__name__}", f"model mode {st}: {ctx.exc!r}"[:300]))
    elif not v and accepted:
        why = "after-measure" if st.measured else ("parametrized" if st.param else "mode")
        out.append((f"C13:accepted-in-refusing-mode:{s}:{why}", f"model mode {st}"[:300]))
    if accepted and n is not None and v is not False:
        with warnings.catch_warnings():
            warnings.simplefilter("ignore")
            for what, d in observers(ctx.seq, n, dev):
                out.append((f"C13:observer:{what}:{ctx.op[0]}", d))
        ctx.act["observers_checked"] += 1
    if not accepted and v is False:
        # a refused call leaves the mode as it was
        with warnings.catch_warnings():
            warnings.simplefilter("ignore")
            for what, d in observers(ctx.seq, st, dev):
                out.append((f"C13:refused-call-changed-the-mode:{what}:{s}", d))
        ctx.act["observers_checked_after_refusal"] += 1
    return out


MONITORS = [typestate]


# ---- engine 2: abstract BFS with witness replay ---------------------------------------------------
_W = {}


def _replay_task(task):
    spec_name, witness, op = task
    w = _W[spec_name]
    dev = _dev(w)
    seq = w.fresh()
    with warnings.catch_warnings():
        warnings.simplefilter("ignore")
        for h in witness:
            try:
                apply(seq, h, w)
            except Exception as e:
                return ("witness-refused", repr(e)[:200], None)
        try:
            apply(seq, op, w)
            accepted = True
            err = ""
        except Exception as e:
            accepted = False
            err = f"{type(e).__name__}: {e}"[:200]
        st = fold(witness, dev)
        v, n = step(st, op, dev)
        obs = []
        if accepted and n is not None and v is not False:
            obs = observers(seq, n, dev)
        elif not accepted and v is False:
            obs = [("refused-call-changed-the-mode:" + w_, d) for w_, d in observers(seq, st, dev)]
    return ("ok", accepted, err, obs)


MAX_DMM = 2


def abstract_bfs(spec, alphabet, res, max_states=None):
    w = World(spec)
    _W[w.name] = w
    dev = _dev(w)
    seen = {St(): ()}
    frontier = [St()]
    transitions = 0
    validated = 0
    depth = 0
    ctx = mp.get_context("fork")
    with ctx.Pool(seqx.NPROC) as pool:
        while frontier:
            depth += 1
            tasks = []
            meta = []
            for st in frontier:
                for op in alphabet:
                    v, n = step(st, op, dev)
                    tasks.append((w.name, seen[st], op))
                    meta.append((st, op, v, n))
            nxt = []
            for (st, op, v, n), r in zip(meta, pool.map(_replay_task, tasks, chunksize=16)):
                transitions += 1
                wit = seen[st]
                payload = {"engine": "witness", "world": spec, "history": [list(o) for o in wit], "op": list(op)}
                if r[0] == "witness-refused":
                    res.add(Violation(f"C13:witness-refused:{sig(op)}", f"witness of model state no longer accepted: {r[1]}", payload, len(wit)))
                    continue
                validated += 1
                _, accepted, err, obs = r
                s = sig(op)
                if v is True and not accepted:
                    res.add(Violation(f"C13:refused-in-accepting-mode:{s}:{err.split(':')[0]}", f"model mode {st}: {err}"[:300], payload, len(wit)))
                elif v is False and accepted:
                    why = "after-measure" if st.measured else ("parametrized" if st.param else "mode")
                    res.add(Violation(f"C13:accepted-in-refusing-mode:{s}:{why}", f"model mode {st}"[:300], payload, len(wit)))
                for what, d in obs:
                    res.add(Violation(f"C13:observer:{what}:{op[0]}", d, payload, len(wit)))
                if accepted and n is not None and v is not False and n not in seen:
                    if sum(1 for c in n.chans if c[1].startswith("dmm")) > MAX_DMM:
                        continue
                    seen[n] = wit + (op,)
                    nxt.append(n)
            frontier = nxt
            if max_states and len(seen) > max_states:
                return dict(states=len(seen), transitions=transitions, validated=validated, depth=depth, fixpoint=False)
    return dict(states=len(seen), transitions=transitions, validated=validated, depth=depth, fixpoint=True)


def mode_only(res, infos):
    """Histories in the same abstract mode must have identical accept vectors."""
    groups = 0
    for spec, alpha, items in infos:
        table = {}
        for hist_idx, oi, fp, desc in items:
            mode, acc = desc.rsplit("|", 1)
            table.setdefault((mode, oi), {}).setdefault(acc, hist_idx)
        modes = {m for m, _ in table}
        groups += len(modes)
        dev = Dev.of(World(spec))
        for (mode, oi), d in table.items():
            if len(d) > 1:
                op = alpha[oi]
                ha, hr = d["A"], d["R"]
                res.add(Violation(
                    f"C13:mode-inconsistent:{sig(op)}",
                    f"same documented mode, different acceptance of {op}: accepted after {[alpha[i][0] for i in ha]}, refused after {[alpha[i][0] for i in hr]}",
                    {"engine": "modepair", "world": spec, "hist_a": [list(alpha[i]) for i in ha], "hist_b": [list(alpha[i]) for i in hr], "op": list(op)},
                    len(ha) + len(hr)))
    return groups



# ---- engine 3: every way of handing over a variable is a USE of it ------------------------------------------------------------
# "once a variable is used the sequence is parametrized": the variable may sit anywhere the API takes a value or a collection of
# values.  Roots x calls x containers; the verdict and the mode after the call must not depend on the container's type.
VU_CONTAINERS = ("bare", "list", "tuple", "set", "frozenset", "keys", "dict", "values", "deque", "ndarray", "list-in-kwarg")
VU_CALLS = ("target_index:l", "target_index:l2", "phase_shift_index:digital", "delay:g", "delay:l")
VU_ROOTS = {
    "concrete": [("declare", "g", "rydberg_global"), ("declare", "l", "raman_local"), ("declare", "l2", "raman_local", "q0"), ("declare_var", "x")],
    "concrete-after-ops": [("declare", "g", "rydberg_global"), ("declare", "l", "raman_local"), ("declare", "l2", "raman_local", "q0"),
                           ("target", "q0", "l"), ("add", C52, "l"), ("declare_var", "x")],
    "already-parametrized": [("declare", "g", "rydberg_global"), ("declare", "l", "raman_local"), ("declare", "l2", "raman_local", "q0"),
                             ("declare_var", "x"), ("declare_var", "y"), ("delay_v", "y", "g")],
}


def _vu_wrap(v, kind):
    import collections

    import numpy as np

    if kind in ("bare", "list-in-kwarg"):
        return v if kind == "bare" else [v]
    if kind == "list":
        return [v]
    if kind == "tuple":
        return (v,)
    if kind == "set":
        return {v}
    if kind == "frozenset":
        return frozenset([v])
    if kind == "keys":
        return {v: None}.keys()
    if kind == "dict":
        return {v: None}
    if kind == "values":
        return {"a": v}.values()
    if kind == "deque":
        return collections.deque([v])
    if kind == "ndarray":
        a = np.empty(1, dtype=object)
        a[0] = v
        return a
    raise ValueError(kind)


def vu_cases():
    return [(r, c, k) for r in VU_ROOTS for c in VU_CALLS for k in VU_CONTAINERS
            if not (c.startswith("delay") and k != "bare")]


def vu_worker(case):
    root, call, kind = case
    w = World(corner("unit8", name="vu-" + root, reusable=True, qubits=2, prefix=VU_ROOTS[root]))
    out = []
    with warnings.catch_warnings():
        warnings.simplefilter("ignore")
        seq = w.fresh()
        v = seq.declared_variables["x"][0]
        was_param = seq.is_parametrized()
        n_calls = len(seq._to_build_calls)
        arg = _vu_wrap(v, kind)
        meth, where = call.split(":")
        try:
            if meth == "target_index":
                if kind == "list-in-kwarg":
                    seq.target_index(qubits=arg, channel=where)
                else:
                    seq.target_index(arg, where)
            elif meth == "phase_shift_index":
                if kind == "bare":
                    seq.phase_shift_index(1.0, v, basis=where)
                elif kind == "list-in-kwarg":
                    seq.phase_shift_index(phi=1.0, basis=where)  # no variable at all: the control of this column
                    arg = None
                else:
                    # phase_shift_index takes its targets one by one: the collection is unpacked by the caller
                    seq.phase_shift_index(1.0, *list(arg), basis=where)
            else:
                seq.delay(v, where)
            err = None
        except Exception as e:  # noqa: BLE001
            err = f"{type(e).__name__}: {e}"
    uses_var = arg is not None
    tag = f"{call}:{kind}"
    if err is not None:
        out.append((f"C13:variable-use-refused:{tag}", f"root {root}: a call carrying a declared variable inside a {kind} was refused: {err[:160]}"))
        if seq.is_parametrized() != was_param:
            out.append((f"C13:variable-use-refused-changed-mode:{tag}", f"root {root}: refused, yet is_parametrized() went {was_param} -> {seq.is_parametrized()}"))
        return out
    if uses_var and not seq.is_parametrized():
        out.append((f"C13:variable-use-not-parametrized:{tag}", f"root {root}: a declared variable was handed over inside a {kind} and accepted, "
                    "but the sequence is not parametrized"))
    if uses_var and len(seq._to_build_calls) != n_calls + 1:
        out.append((f"C13:variable-use-not-stored:{tag}", f"root {root}: the call is not in the stored calls ({n_calls} -> {len(seq._to_build_calls)})"))
    if uses_var:
        try:
            seq.get_duration()
            out.append((f"C13:inspection-accepted-after-variable-use:{tag}", f"root {root}: get_duration() answered after a variable was used"))
        except RuntimeError:
            pass
        except Exception as e:  # noqa: BLE001
            out.append((f"C13:inspection-error-after-variable-use:{tag}", f"root {root}: get_duration() raised {type(e).__name__}: {e}"))
    if not uses_var and seq.is_parametrized() != was_param:
        out.append((f"C13:parametrized-without-variable:{tag}", f"root {root}: no variable in the call, is_parametrized() went {was_param} -> True"))
    return out or [("@variable-use:" + ("accepted-parametrized" if uses_var else "control"), "")]


def variable_use_grid(res):
    from mc import gridx

    cases = vu_cases()
    outs = gridx.run(vu_worker, cases)
    classes = {}
    for c, r in zip(cases, outs):
        for fp, d in r:
            if fp.startswith("@"):
                classes[fp] = classes.get(fp, 0) + 1
            else:
                res.add(Violation(fp, d, {"engine": "variable-use", "case": list(c)}))
    res.activations["variable_use_cases"] = len(cases)
    return dict(cases=len(cases), outcome_classes=classes, roots=list(VU_ROOTS), calls=list(VU_CALLS), containers=list(VU_CONTAINERS))


def worlds(tier):
    base = [("declare_stub",)]
    ws = [
        corner("unit8", name="virtual-reusable", reusable=True, qubits=2),
        corner("unit8", name="physical-like", reusable=False, qubits=2, qid_alias={"q0": 0, "q1": 1}),  # integer ids incl. the falsy 0
    ]
    return ws


def run(tier, seed):
    res = Result("model_checking")
    depth = 3 if tier == "quick" else 4
    infos = []
    plan = [(w, ALPHA, depth) for w in worlds(tier)]
    plan.append((corner("unit8", name="virtual-g+l", reusable=True, qubits=2,
                        prefix=[("declare", "g", "rydberg_global"), ("declare", "l", "raman_local")]), ALPHA, depth))
    # the same root already PARAMETRIZED (a variable was used before anything else happens): every later call is only stored, and the
    # modes the calls depend on (EOM on / off, measured, ...) have to be followed through the stored calls
    pplan = [(corner("unit8", name="virtual-g+l-already-parametrized", reusable=True, qubits=2,
                     prefix=[("declare", "g", "rydberg_global"), ("declare", "l", "raman_local"), ("declare_var", "x"), ("delay_v", "x", "g")]),
              [op for op in ALPHA if op[0] not in ("ro",)] + [("ro", "duration"), ("ro", "str"), ("ro", "phase_ref"), ("estimate", C52, "g"), ("estimate", C52, "g", "no-delay"),
                                                             ("estimate", C52, "l", "wait-for-all"), ("ro", "sample")], 2 if tier == "quick" else 3)]
    cov = seqx.run_plan(res, plan, MONITORS, infos=infos)
    # states of a parametrized sequence differ only in their stored calls: keyed on the call log
    pres = Result("model_checking")
    pcov = seqx.run_plan(pres, pplan, MONITORS, with_calls=True, key_calls=True, infos=infos)
    res.violations += pres.violations
    for k, v in pres.activations.items():
        res.activations[k] = res.activations.get(k, 0) + v
    cov["states"] += pcov["states"]
    cov["transitions"] += pcov["transitions"]
    cov["concrete_states"] = cov["states"]
    cov["concrete_transitions"] = cov["transitions"]
    cov["abstract_modes_seen_concretely"] = mode_only(res, infos)
    cov["variable_use_grid"] = variable_use_grid(res)
    # engine 2
    tot = dict(states=0, transitions=0, validated=0)
    cov["abstract"] = []
    for w in worlds(tier):
        r = abstract_bfs(w, [tuple(o) for o in ALPHA], res, max_states=(4000 if tier == "quick" else None))
        cov["abstract"].append(dict(world=w["name"], **r))
        for k in tot:
            tot[k] += r[k]
    cov["states"] = tot["states"]
    cov["transitions"] = tot["transitions"]
    cov["traces_validated_against_impl"] = tot["validated"] + res.activations.get("model_compared", 0)
    cov["exhaustive"] = all(a["fixpoint"] for a in cov["abstract"]) and cov["exhaustive"]
    cov["rule"] = ("engine 2: BFS over the abstract typestate model's reachable states (<= %d DMM channels), each abstract transition "
                   "replayed on the real Sequence through a witness history; engine 1: concrete BFS to depth %d with the model folded "
                   "over every history and a mode-only consistency check" % (MAX_DMM, depth))
    res.coverage = cov
    res.required_activations = ["model_compared", "observers_checked", "variable_use_cases"]
    res.assumptions = ["all arguments are value-valid so that only the mode can cause a refusal",
                       "the model leaves data-dependent cases undecided (align with a never-targeted local channel, deferred "
                       "parametrized calls, non-timeline calls after measurement)"]
    return res


def replay(payload):
    eng = payload.get("engine")
    if eng == "variable-use":
        return [Violation(fp, d, payload) for fp, d in vu_worker(tuple(payload["case"])) if not fp.startswith("@")]
    if eng == "witness":
        w = World(payload["world"])
        _W[w.name] = w
        dev = _dev(w)
        wit = tuple(tuple(o) for o in payload["history"])
        op = tuple(payload["op"])
        r = _replay_task((w.name, wit, op))
        out = []
        if r[0] != "ok":
            return [Violation(f"C13:witness-refused:{sig(op)}", r[1], payload)]
        _, accepted, err, obs = r
        st = fold(wit, dev)
        v, n = step(st, op, dev)
        if v is True and not accepted:
            out.append(Violation(f"C13:refused-in-accepting-mode:{sig(op)}:{err.split(':')[0]}", err, payload))
        if v is False and accepted:
            why = "after-measure" if st.measured else ("parametrized" if st.param else "mode")
            out.append(Violation(f"C13:accepted-in-refusing-mode:{sig(op)}:{why}", str(st), payload))
        out += [Violation(f"C13:observer:{what}:{op[0]}", d, payload) for what, d in obs]
        return out
    if eng == "modepair":
        w = World(payload["world"])
        dev = _dev(w)
        op = tuple(payload["op"])
        res = []
        for h in (payload["hist_a"], payload["hist_b"]):
            hist = tuple(tuple(o) for o in h)
            seq = w.fresh()
            with warnings.catch_warnings():
                warnings.simplefilter("ignore")
                for o in hist:
                    apply(seq, o, w)
                try:
                    apply(seq, op, w)
                    acc = True
                except Exception:
                    acc = False
            res.append((fold(tuple(w.prefix) + hist, dev), acc))
        if res[0][0] == res[1][0] and res[0][1] != res[1][1]:
            return [Violation(f"C13:mode-inconsistent:{sig(op)}", "same mode, different acceptance", payload)]
        return []
    return seqx.replay(payload, MONITORS)
