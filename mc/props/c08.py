"""C08 — building a parametrized sequence equals direct construction.
ProgX: skeleton programs x every subset of numeric argument positions replaced by variable expressions (rotating
expression kinds) x build orders; mappable registers x every mapping; differential oracle on snapshots."""
from __future__ import annotations

import itertools
import math
import warnings

import numpy as np

from mc import gridx, snapshot
from mc.evidence import Result, Violation
from mc.worlds import World, corner

# expression kinds: (name, forward f(v), inverse v(T) or None when T is not reachable, integer-safe?)
EXPRS = [
    ("var", lambda v: v, lambda T: T, True),
    ("item", None, None, True),  # handled specially: element of a size-3 array variable
    ("2*v", lambda v: 2 * v, lambda T: T / 2, False),
    ("v+1", lambda v: v + 1, lambda T: T - 1, True),
    ("-v", lambda v: -v, lambda T: -T, True),
    ("v/2", lambda v: v / 2, lambda T: T * 2, False),
    ("v**2", lambda v: v**2, lambda T: math.sqrt(T) if T >= 0 else None, False),
    ("abs", lambda v: abs(v), lambda T: -T if T >= 0 else None, True),
    ("sqrt", lambda v: np.sqrt(v), lambda T: T * T if T >= 0 else None, False),
    ("sin", lambda v: np.sin(v), lambda T: math.asin(T) if abs(T) <= 1 else None, False),
    ("floor", lambda v: np.floor(v), lambda T: T + 0.25 if float(T).is_integer() else None, True),
    ("ceil", lambda v: np.ceil(v), lambda T: T - 0.25 if float(T).is_integer() else None, True),
    ("round", lambda v: np.round(v), lambda T: T + 0.2 if float(T).is_integer() else None, True),
    ("nested", lambda v: (2 * v + 1) / 2 - 0.5, lambda T: T, True),
    # the remaining operators / functions of a parametrized object (one inverse each, so that every position can reach its value)
    ("exp", lambda v: np.exp(v), lambda T: math.log(T) if T > 0 else None, False),
    ("log", lambda v: np.log(v), lambda T: math.exp(T) if abs(T) < 50 else None, False),
    ("log2", lambda v: np.log2(v), lambda T: 2.0 ** T if abs(T) < 50 else None, False),
    ("cos", lambda v: np.cos(v), lambda T: math.acos(T) if abs(T) <= 1 else None, False),
    ("tan", lambda v: np.tan(v), lambda T: math.atan(T), False),
    ("tanh", lambda v: np.tanh(v), lambda T: math.atanh(T) if abs(T) < 1 else None, False),
    ("2**v", lambda v: 2 ** v, lambda T: math.log2(T) if T > 0 else None, False),
    ("v//1", lambda v: v // 1, lambda T: T + 0.25 if float(T).is_integer() else None, True),
    ("9//v", lambda v: 9 // v, lambda T: 9 / (T + 0.5) if float(T).is_integer() and T >= 0 else None, True),
    ("v%m", lambda v: v % 1000, lambda T: T + 3000 if 0 <= T < 1000 else None, True),
    ("m%v", lambda v: 1000003 % v, lambda T: float(1000003 - T) if float(T).is_integer() and 0 <= T < 400000 else None, True),
    ("round1", lambda v: np.round(v, 1), lambda T: T + 0.04 if float(T * 10).is_integer() else None, False),
    # an exact tie: numpy / Python round half to even, so x.5 with x even rounds DOWN to x
    ("round-tie", lambda v: np.round(v), lambda T: T + 0.5 if float(T).is_integer() and int(T) % 2 == 0 else None, True),
    # array-only kinds (whole-array arguments): an array LITERAL as the other operand of the expression
    ("s*lit", None, lambda T: T, False),  # scalar variable x literal array
    ("v*lit", None, None, False),  # array variable x literal array (elementwise)
    ("v+lit", None, None, False),  # array variable + literal array
    ("slice", None, None, False),  # a slice var[1:n+1] of a longer array variable
]
ARRAY_ONLY = ("s*lit", "v*lit", "v+lit", "slice")
LIT = [2.0, 0.5, 4.0, 0.25, 8.0]


class ArrBase(float):
    """Base value of a whole-array position (marks the position for `applicable`)."""
EX = {e[0]: e for e in EXPRS}


class Vals:
    """Supplies the value used at each numeric position: base number, variable expression (template) or its
    numeric evaluation (direct)."""

    def __init__(self, mode, chosen, assign, seq=None):
        self.mode = mode  # "template" | "direct" | "plain"
        self.chosen = chosen  # {pos: expr kind}
        self.assign = assign  # {pos: target value T}
        self.seq = seq
        self.vars = {}
        self.values = {}  # variable name -> value to assign at build
        self.skip = False
        self.positions = []
        self.arrays = {}
        self.owned_lists = []  # list objects handed to the library as index keys; edited by scramble()

    def scramble(self):
        """The caller goes on using (reversing) the index lists it passed while writing the template."""
        for lst in self.owned_lists:
            lst.reverse()

    def __call__(self, pos, base, integer=False):
        self.positions.append((pos, base, integer))
        T = self.assign.get(pos, base)
        kind = self.chosen.get(pos)
        if kind is None or self.mode == "plain":
            return T
        name = f"v{pos}"
        if kind in ARRAY_ONLY:
            self.skip = True
            return T
        if kind == "item":
            v = T
            if self.mode == "template":
                if name not in self.vars:
                    self.vars[name] = self.seq.declare_variable(name, size=3, dtype=int if integer else float)
                return self.vars[name][1]
            return (int(v) if integer else float(v))
        _, f, inv, int_safe = EX[kind]
        v = inv(T)
        if v is None:
            self.skip = True
            return T
        use_int_var = integer and int_safe and kind not in ("floor", "ceil", "round", "round-tie", "v//1", "9//v", "v%m", "m%v") and float(v).is_integer()
        if self.mode == "template":
            if name not in self.vars:
                self.vars[name] = self.seq.declare_variable(name, dtype=int if use_int_var else float)
            return f(self.vars[name])
        vv = int(v) if use_int_var else float(v)
        return f(np.int64(vv) if use_int_var else np.float64(vv)) if kind != "var" else vv

    def arr(self, pos, base_list):
        """A whole array argument (e.g. interpolation values): literal list, or an expression of a size-n array variable."""
        self.positions.append((pos, ArrBase(1.0), False))
        T = float(self.assign.get(pos, 1.0))  # scale factor applied to the base list
        kind = self.chosen.get(pos)
        target = [T * b for b in base_list]
        if kind is None or self.mode == "plain":
            return target
        if kind == "item":
            # the whole array read through a LIST of indices that the caller owns (and edits after the template is written)
            n = len(base_list)
            order = list(range(1, n)) + [0]
            name = f"v{pos}"
            self.arrays[name] = (base_list, lambda t: t, list(order))  # values are un-permuted in var_values
            if self.mode == "template":
                if name not in self.vars:
                    self.vars[name] = self.seq.declare_variable(name, size=n, dtype=float)
                self.owned_lists.append(order)
                return self.vars[name][order]
            return np.array(target, dtype=float)
        if kind == "s*lit":
            name = f"v{pos}"
            if self.mode == "template":
                if name not in self.vars:
                    self.vars[name] = self.seq.declare_variable(name, dtype=float)
                return self.vars[name] * np.array(base_list, dtype=float)
            return np.float64(T) * np.array(base_list, dtype=float)
        if kind == "slice":
            n = len(base_list)
            name = f"v{pos}"
            self.arrays[name] = (base_list, (lambda t: t), None, ("slice", None))
            if self.mode == "template":
                if name not in self.vars:
                    self.vars[name] = self.seq.declare_variable(name, size=n + 2, dtype=float)
                return self.vars[name][1:n + 1]
            return np.array(target, dtype=float)
        if kind in ("v*lit", "v+lit"):
            n = len(base_list)
            lit = np.array(LIT[:n], dtype=float)
            name = f"v{pos}"
            self.arrays[name] = (base_list, (lambda t: t), None, (kind, lit))
            w = np.array(target, dtype=float) / lit if kind == "v*lit" else np.array(target, dtype=float) - lit
            if self.mode == "template":
                if name not in self.vars:
                    self.vars[name] = self.seq.declare_variable(name, size=n, dtype=float)
                return self.vars[name] * lit if kind == "v*lit" else self.vars[name] + lit
            return w * lit if kind == "v*lit" else w + lit
        f = {"var": lambda v: v, "2*v": lambda v: 2 * v, "-v": lambda v: -v, "v/2": lambda v: v / 2, "v+1": lambda v: v + 1}.get(kind)
        inv = {"var": lambda t: t, "2*v": lambda t: t / 2, "-v": lambda t: -t, "v/2": lambda t: t * 2, "v+1": lambda t: t - 1}.get(kind)
        if f is None:
            self.skip = True
            return target
        name = f"v{pos}"
        self.arrays[name] = (base_list, inv)
        if self.mode == "template":
            if name not in self.vars:
                self.vars[name] = self.seq.declare_variable(name, size=len(base_list), dtype=float)
            return f(self.vars[name])
        return f(np.array([inv(t) for t in target], dtype=float))

    def var_values(self, assign):
        """Values to pass to build() for the assignment `assign`."""
        out = {}
        for pos, kind in self.chosen.items():
            name = f"v{pos}"
            if name not in self.vars:
                continue
            T = assign[pos]
            if name in self.arrays:
                base_list, inv = self.arrays[name][:2]
                vals = [inv(T * b) for b in base_list]
                if len(self.arrays[name]) > 3:  # the variable is combined with a literal array
                    k, lit = self.arrays[name][3]
                    if k == "slice":
                        vals = [7.0] + [float(v) for v in vals] + [-7.0]
                    else:
                        vals = [float(v / l) if k == "v*lit" else float(v - l) for v, l in zip(vals, lit)]
                elif len(self.arrays[name]) > 2:  # read through var[order]: w[order[i]] = target[i]
                    order = self.arrays[name][2]
                    w = [0.0] * len(vals)
                    for i, o in enumerate(order):
                        w[o] = vals[i]
                    vals = w
                out[name] = vals
                continue
            if kind == "item":
                out[name] = [0, T, 0]
            else:
                v = EX[kind][2](T)
                if v is None:
                    return None
                out[name] = v
        return out


# ---- skeleton programs: fn(seq, V, w) issuing the public calls; V(pos, base, integer) supplies numbers --------------
def sk_basic(seq, V, w):
    from pulser import Pulse

    seq.declare_channel("g", "rydberg_global")
    seq.declare_channel("l", "raman_local", initial_target="q0")
    seq.add(Pulse.ConstantPulse(V(0, 52, True), V(1, 1.5), V(2, -0.5), V(3, 0.7), post_phase_shift=V(4, 0.25)), "g")
    seq.delay(V(5, 100, True), "l")
    seq.add(Pulse.ConstantPulse(64, 2.0, 0.0, V(6, 1.0)), "l", "wait-for-all")
    seq.phase_shift(V(7, -0.3), "q0", "q1", basis="digital")
    seq.add(Pulse.ConstantPulse(64, 2.0, 0.0, 0.0), "l")


def sk_waveforms(seq, V, w):
    from pulser import Pulse
    from pulser.waveforms import BlackmanWaveform, CompositeWaveform, ConstantWaveform, KaiserWaveform, RampWaveform

    seq.declare_channel("g", "rydberg_global")
    amp = BlackmanWaveform(V(0, 100, True), V(1, 0.9))
    det = RampWaveform(V(0, 100, True), V(2, -1.0), V(3, 1.0))
    seq.add(Pulse(amp, det, V(4, 0.5)), "g")
    k = KaiserWaveform(V(5, 60, True), V(6, 0.4), V(7, 8.0))
    seq.add(Pulse.ConstantDetuning(k, V(8, 0.25), 0.0), "g", "no-delay")
    comp = CompositeWaveform(ConstantWaveform(V(9, 20, True), V(10, 1.0)), RampWaveform(32, V(10, 1.0), 0.0))
    seq.add(Pulse.ConstantDetuning(comp, 0.0, V(11, 2.0)), "g")


def sk_maxval(seq, V, w):
    """Waveforms defined by their maximum value (classmethod constructors: the duration follows from the arguments)."""
    from pulser import Pulse
    from pulser.waveforms import BlackmanWaveform, KaiserWaveform

    seq.declare_channel("g", "rydberg_global")
    bm = BlackmanWaveform.from_max_val(V(0, 2.0), V(1, 1.2))
    seq.add(Pulse.ConstantDetuning(bm, V(2, 0.5), 0.0), "g")
    km = KaiserWaveform.from_max_val(V(3, 2.5), V(4, 0.9), V(5, 6.0))
    seq.add(Pulse.ConstantDetuning(km, 0.0, V(6, 0.3)), "g", "no-delay")
    seq.add(Pulse.ConstantAmplitude(1.0, BlackmanWaveform.from_max_val(max_val=-V(0, 2.0), area=-0.6), 0.0), "g")  # negative, as a detuning


def sk_interp(seq, V, w):
    from pulser import Pulse
    from pulser.waveforms import InterpolatedWaveform

    seq.declare_channel("g", "rydberg_global")
    wf = InterpolatedWaveform(V(0, 200, True), V.arr(1, [0.0, 2.0, 0.5]))
    seq.add(Pulse.ConstantDetuning(wf, V(4, -1.0), V(5, 0.0)), "g")
    wf2 = InterpolatedWaveform(V(6, 120, True), [0.0, 1.0, 0.0], times=V.arr(7, [0.0, 0.25, 0.5]))
    seq.add(Pulse.ConstantAmplitude(V(8, 1.0), wf2, 0.0), "g")


def sk_interp1d(seq, V, w):
    """An interpolator other than the default, given POSITIONALLY (the abstract format has no field for it: refusal, never silence)."""
    from pulser import Pulse
    from pulser.waveforms import InterpolatedWaveform

    seq.declare_channel("g", "rydberg_global")
    wf = InterpolatedWaveform(V(0, 100, True), V.arr(1, [0.0, 1.0, 0.5, 0.0]), [0.0, 0.2, 0.7, 1.0], "interp1d")
    seq.add(Pulse.ConstantDetuning(wf, V(2, -1.0), 0.0), "g")


def sk_prefix(seq, V, w):
    """A phase shift on the LAST declared id before any variable is used: on a mappable register it is applied to the template right away
    and stays in the record of every built sequence, also of those built without that id."""
    from pulser import Pulse

    seq.declare_channel("l", "raman_local", initial_target="q0")
    seq.phase_shift(0.5, w.qids[-1], basis="digital")
    seq.add(Pulse.ConstantPulse(V(0, 100, True), V(1, 1.0), 0.0, V(2, 0.0)), "l")


def sk_eom(seq, V, w):
    seq.declare_channel("g", "rydberg_global")
    seq.enable_eom_mode("g", V(0, 2.0), V(1, 0.5), optimal_detuning_off=V(2, -10.0), correct_phase_drift=True)
    seq.add_eom_pulse("g", V(3, 100, True), V(4, 0.3), post_phase_shift=V(5, 0.1), correct_phase_drift=True)
    seq.delay(V(6, 48, True), "g")
    seq.modify_eom_setpoint("g", V(7, 1.0), V(8, 0.0), optimal_detuning_off=V(9, 5.0), correct_phase_drift=True)
    seq.add_eom_pulse("g", 60, V(10, 1.2))
    seq.disable_eom_mode("g", correct_phase_drift=True)


def sk_eom2(seq, V, w):
    """Both beams of the EOM are controlled: three detuning-off options, whose spacing depends on the amplitude; the requested off-detuning
    sits between two of them so that the choice depends on the amplitude the options are computed for."""
    seq.declare_channel("g", "rydberg_global")
    seq.delay(V(0, 48, True), "g")
    seq.enable_eom_mode("g", V(1, 8.0), V(2, 0.0), optimal_detuning_off=V(3, -3.6), correct_phase_drift=True)
    seq.add_eom_pulse("g", V(4, 100, True), V(5, 0.3))
    seq.modify_eom_setpoint("g", V(6, 4.0), V(7, 0.0), optimal_detuning_off=V(8, -1.2))
    seq.add_eom_pulse("g", 60, 0.0)
    seq.disable_eom_mode("g", correct_phase_drift=True)


def sk_dmm(seq, V, w):
    from pulser import Pulse
    from pulser.waveforms import ConstantWaveform, RampWaveform

    seq.config_detuning_map(w.detmap("m2"), "dmm_0")
    seq.declare_channel("g", "rydberg_global")
    seq.add_dmm_detuning(ConstantWaveform(V(0, 100, True), V(1, -2.0)), "dmm_0")
    seq.add(Pulse.ConstantPulse(V(2, 80, True), V(3, 1.0), 0.0, 0.0), "g", "wait-for-all")
    seq.add_dmm_detuning(RampWaveform(V(4, 40, True), V(5, -3.0), V(6, 0.0)), "dmm_0", "min-delay")
    seq.align("g", "dmm_0")
    seq.measure("ground-rydberg")


def sk_index(seq, V, w):
    from pulser import Pulse

    seq.declare_channel("l", "raman_local")
    seq.target_index(V(0, 1, True), "l")
    seq.add(Pulse.ConstantPulse(V(1, 100, True), 1.0, 0.0, 0.0, post_phase_shift=V(2, 0.5)), "l")
    seq.target_index(V(3, 0, True), "l")
    seq.phase_shift_index(V(4, 0.4), V(5, 1, True), basis="digital")
    seq.add(Pulse.ConstantPulse(64, V(6, 2.0), 0.0, V(7, 0.0)), "l")
    seq.phase_shift(V(8, 0.125), basis="digital")  # no targets: every qubit of the register as it is when the call is (re)played


def sk_xy(seq, V, w):
    from pulser import Pulse

    seq.declare_channel("m", "mw_global")
    seq.add(Pulse.ConstantPulse(V(0, 100, True), V(1, 1.0), V(2, 0.0), V(3, 0.0)), "m")
    seq.delay(V(4, 60, True), "m")
    seq.add(Pulse.ConstantPulse(40, 2.0, 0.0, V(5, 1.0), post_phase_shift=V(6, -0.5)), "m")
    seq.measure("XY")


def sk_literals(seq, V, w):
    """Literal boundary values in calls that FOLLOW the first variable (the calls are only stored then): zero-length delays, an
    explicit default protocol, a retarget to the current target, an empty phase shift."""
    from pulser import Pulse

    seq.declare_channel("g", "rydberg_global")
    seq.declare_channel("l", "raman_local", initial_target="q0")
    seq.add(Pulse.ConstantPulse(V(0, 52, True), V(1, 1.5), 0.0, 0.0), "g")
    seq.delay(0, "g", at_rest=True)
    seq.delay(0, "l")
    seq.phase_shift(0.0, "q0", basis="digital")
    seq.target("q0", "l")
    seq.add(Pulse.ConstantPulse(64, V(2, 2.0), 0.0, 0.0), "l", "min-delay")
    seq.delay(V(3, 16, True), "g")
    seq.align("g", "l", at_rest=False)
    seq.add(Pulse.ConstantPulse(16, 1.0, 0.0, 0.0, post_phase_shift=0.0), "g", protocol="no-delay")


SKELETONS = {"literals": sk_literals, "maxval": sk_maxval, "basic": sk_basic, "waveforms": sk_waveforms, "interp": sk_interp, "interp1d": sk_interp1d, "prefix": sk_prefix, "eom": sk_eom, "eom2": sk_eom2, "dmm": sk_dmm,
             "index": sk_index, "xy": sk_xy}
WORLD = corner("real", name="c08", qubits=3, clock=4, min_dur=16, eom=dict(controlled_beams=["BLUE", "RED"]))


def alt(base, integer, pos):
    """Second assignment (B) for a position."""
    if integer:
        if base in (0, 1):  # qubit indices
            return 1 - base
        return base + 8
    if base == 0.0:
        return 0.3
    return round(base * 0.5, 6) if abs(base) > 1 else round(base + 0.125, 6)


def positions_of(name, w):
    seq = w.fresh(apply_prefix=False)
    V = Vals("plain", {}, {})
    with warnings.catch_warnings():
        warnings.simplefilter("ignore")
        SKELETONS[name](seq, V, w)
    seen = {}
    for pos, base, integer in V.positions:
        seen[pos] = (base, integer)
    return seen


def applicable(kind, base, integer, pos):
    if isinstance(base, ArrBase):
        return kind in ("var", "item", "2*v", "-v", "v/2", "v+1") + ARRAY_ONLY
    if kind in ARRAY_ONLY:
        return False
    if kind == "item":
        return True
    inv = EX[kind][2]
    for T in (base, alt(base, integer, pos)):
        try:
            if inv(T) is None:
                return False
        except Exception:
            return False
    if integer and kind in ("2*v", "v/2", "v**2", "sqrt", "sin", "exp", "log", "log2", "cos", "tan", "tanh", "2**v", "round1"):
        return False  # would not yield whole numbers for durations / indices
    return True


def pick(kinds, start, base, integer, pos):
    for j in range(len(kinds)):
        k = kinds[(start + j) % len(kinds)]
        if applicable(k, base, integer, pos):
            return k
    return "var"


def cases(tier):
    w = World(WORLD)
    out = []
    kinds = [e[0] for e in EXPRS]
    for name in SKELETONS:
        pos = positions_of(name, w)
        ids = sorted(pos)
        n = len(ids)
        # every subset of positions (2^n) with rotating expression kinds; cap n at 8 by grouping
        subsets = []
        if n <= 8 or tier == "thorough":
            for r in range(0, n + 1):
                subsets += list(itertools.combinations(ids, r))
        else:
            for r in (0, 1, 2, n - 1, n):
                subsets += list(itertools.combinations(ids, r))
        for si, sub in enumerate(subsets):
            chosen = {p: pick(kinds, si + j + p, pos[p][0], pos[p][1], p) for j, p in enumerate(sub)}
            out.append(("prog", name, chosen))
            # the same template on a mappable register (resolved at build time): any prefix of the program may be
            # concrete, i.e. replayed before the register is set
            out.append(("progm", name, chosen))
        # every expression kind at every single position, and all kind pairs on the first two positions
        for p in ids:
            for k in kinds:
                if applicable(k, pos[p][0], pos[p][1], p):
                    out.append(("prog", name, {p: k}))
        if n >= 2:
            for k1, k2 in itertools.product(kinds, kinds):
                if applicable(k1, pos[ids[0]][0], pos[ids[0]][1], ids[0]) and applicable(k2, pos[ids[1]][0], pos[ids[1]][1], ids[1]):
                    out.append(("prog", name, {ids[0]: k1, ids[1]: k2}))
    for mapping in mappable_cases():
        out.append(("mappable",) + mapping)
    out += pair_cases(tier)
    out += fracidx_cases(tier)
    out += idxcoll_cases(tier)
    # templates that are built while they are still being written: every skeleton x every single position as a plain variable x a build
    # (with the other assignment) just before each of its calls
    for name in SKELETONS:
        pos = positions_of(name, w)
        first = min(pos)
        for p in sorted(pos):
            if applicable("var", pos[p][0], pos[p][1], p):
                for k in range(2, 11):
                    out.append(("progi", name, {p: "var"}, k, True))  # mappable register: a build always assigns the variables
                    if p != first and applicable("var", pos[first][0], pos[first][1], first):
                        out.append(("progi", name, {first: "var", p: "var"}, k, False))
    return out


def mappable_template(w):
    """A template on a MappableRegister whose full mapping reproduces the world's concrete register."""
    from pulser import Sequence
    from pulser.register.mappable_reg import MappableRegister
    from pulser.register.register_layout import RegisterLayout

    coords = [tuple(float(x) for x in np.asarray(w.register.qubits[q].as_array() if hasattr(w.register.qubits[q], "as_array")
                                                 else w.register.qubits[q])) for q in w.qids]
    L = RegisterLayout(coords + [(20.0, 20.0), (-8.0, 4.0)], slug="C08L")
    ids = L.get_traps_from_coordinates(*coords)
    return Sequence(MappableRegister(L, *w.qids), w.device), dict(zip(w.qids, ids))


class _Interrupted:
    """The sequence as the skeleton sees it; just before its k-th call reaches the sequence, `hook` runs (the template is built there)."""

    def __init__(self, seq, k, hook):
        self.__dict__.update(_seq=seq, _k=k, _hook=hook, _n=0, fired=False)

    def __getattr__(self, attr):
        val = getattr(self._seq, attr)
        if not callable(val) or attr.startswith("_") or attr in ("declare_variable", "is_parametrized", "current_phase_ref"):
            return val

        def call(*a, **kw):
            self.__dict__["_n"] += 1
            if self._n == self._k:
                self.__dict__["fired"] = True
                self._hook()
            return val(*a, **kw)

        return call


def run_prog(name, chosen, mappable=False, interrupt=None):
    w = World(WORLD)
    pos = positions_of(name, w)
    A = {p: b for p, (b, i) in pos.items()}
    # assignment B changes only the positions that are variables; the others are literals of the program
    B = {p: (alt(b, i, p) if p in chosen else b) for p, (b, i) in pos.items()}
    out = []
    with warnings.catch_warnings():
        warnings.simplefilter("ignore")
        # direct constructions first: the assignment must be one the direct construction accepts
        direct = {}
        for tag, assign in (("A", A), ("B", B)):
            seq = w.fresh(apply_prefix=False)
            V = Vals("direct", chosen, assign)
            try:
                SKELETONS[name](seq, V, w)
            except Exception as e:
                direct[tag] = None
                continue
            if V.skip:
                direct[tag] = None
                continue
            direct[tag] = snapshot.snap(seq, with_calls=False)
        if direct["A"] is None and direct["B"] is None:
            return [("@not-directly-constructible", "")]
        qmap = {}
        if mappable:
            tmpl, mapping = mappable_template(w)
            qmap = {"qubits": mapping}
        else:
            tmpl = w.fresh(apply_prefix=False)
        TV = Vals("template", chosen, A, tmpl)
        target = tmpl
        if interrupt is not None:
            # every variable is declared up front (learnt from a dry run on a scratch template), and the template is BUILT with assignment
            # B just before its `interrupt`-th call: whatever that build leaves behind must not leak into the calls written afterwards
            from pulser.parametrized import Variable

            if direct["B"] is None or direct["A"] is None:
                return [("@interrupt-not-applicable", "")]
            scratch = mappable_template(w)[0] if mappable else w.fresh(apply_prefix=False)
            dry = Vals("template", chosen, A, scratch)
            try:
                SKELETONS[name](scratch, dry, w)
            except Exception:
                return [("@interrupt-not-applicable", "")]
            if dry.skip or not dry.vars:
                return [("@interrupt-not-applicable", "")]
            for vn, vobj in dry.vars.items():
                dv = scratch.declared_variables[vn]
                if isinstance(vobj, Variable):
                    TV.vars[vn] = tmpl.declare_variable(vn, size=dv.size, dtype=dv.dtype)
                else:
                    TV.vars[vn] = tmpl.declare_variable(vn, dtype=dv.dtype)
            TV.arrays = dict(dry.arrays)

            def hook():
                vals_b = TV.var_values(B)
                if vals_b is not None:
                    tmpl.build(**vals_b, **qmap)

            target = _Interrupted(tmpl, interrupt, hook)
        try:
            SKELETONS[name](target, TV, w)
        except Exception as e:
            if interrupt is not None:
                return [(f"C08:template-construction-raises-after-a-build:{name}:{type(e).__name__}", f"{chosen}, built before call {interrupt}: {e}"[:250])]
            return [(f"C08:template-construction-raises:{name}:{type(e).__name__}", f"{chosen}: {e}"[:250])]
        if TV.skip:
            return [("@expression-not-applicable", "")]
        if interrupt is not None and not target.fired:
            return [("@interrupt-not-reached", "")]
        TV.scramble()
        if chosen and not tmpl.is_parametrized():
            return [(f"C08:template-not-parametrized:{name}", f"{chosen}")]
        t0 = snapshot.snap(tmpl, with_calls=True).key(with_calls=True)
        built_keys = {}
        # caller-owned numpy buffers, reused and updated IN PLACE from one build to the next
        buffers = {}
        for order in (("A", "B", "A"), ("B", "A", "A")):
            for tag in order:
                assign = A if tag == "A" else B
                if direct[tag] is None:
                    continue
                vals = TV.var_values(assign)
                if vals is None:
                    continue
                if order[0] == "B":  # second pass: hand over the same arrays, edited in place
                    for vn, vv in list(vals.items()):
                        dt = tmpl.declared_variables[vn].dtype
                        arr = np.atleast_1d(np.asarray(vv, dtype=dt))
                        if vn in buffers and buffers[vn].shape == arr.shape:
                            buffers[vn][...] = arr
                        else:
                            buffers[vn] = arr.copy()
                        vals[vn] = buffers[vn]
                try:
                    b = tmpl.build(**vals, **qmap)
                except Exception as e:
                    out.append((f"C08:build-raises:{name}:{type(e).__name__}", f"{chosen} with {vals}: {e}"[:250]))
                    continue
                kb = snapshot.snap(b, with_calls=False)
                if kb.key() != direct[tag].key():
                    from mc.props.c09 import _diff

                    out.append((f"C08:build-differs-from-direct:{name}:{_diff(direct[tag], kb)}:{'+'.join(sorted(set(chosen.values())))}",
                                f"positions {chosen}, assignment {tag}"))
                prev = built_keys.setdefault(tag, kb.key())
                if prev != kb.key():
                    out.append((f"C08:repeated-build-differs:{name}", f"{chosen}, assignment {tag} after order {order}"))
                if snapshot.snap(tmpl, with_calls=True).key(with_calls=True) != t0:
                    out.append((f"C08:build-altered-template:{name}", f"{chosen}, after building {tag}"))
                    t0 = snapshot.snap(tmpl, with_calls=True).key(with_calls=True)
        # a failing build (missing value) leaves the template usable
        if chosen and TV.vars:
            try:
                tmpl.build()
                out.append((f"C08:build-without-values-accepted:{name}", ""))
            except Exception:
                pass
            vals = TV.var_values(A) if direct["A"] is not None else None
            if vals:
                bad = dict(vals)
                k0 = sorted(bad)[0]
                bad[k0] = [1, 2] if not isinstance(bad[k0], list) else 5  # wrong size
                try:
                    tmpl.build(**bad, **qmap)
                except Exception:
                    pass
                if snapshot.snap(tmpl, with_calls=True).key(with_calls=True) != t0:
                    out.append((f"C08:failed-build-altered-template:{name}", f"{chosen}"))
                try:
                    b = tmpl.build(**vals, **qmap)
                    if snapshot.snap(b, with_calls=False).key() != direct["A"].key():
                        out.append((f"C08:build-after-failed-build-differs:{name}", f"{chosen}"))
                except Exception as e:
                    out.append((f"C08:build-after-failed-build-raises:{name}:{type(e).__name__}", f"{chosen}: {e}"[:200]))
    return out + [("@compared", "")]



# ---- expressions sharing their operands ----------------------------------------------------------------------------------
# Two arguments of one template built from the SAME variable and the same constant through different operations / classes
# (v+c vs v-c, Blackman(t, a) vs Constant(t, a), ...): every ordered pair, template.build vs direct construction.
import operator as _op

PAIR_EXPRS = [
    ("v+c", lambda v, c: v + c), ("v-c", lambda v, c: v - c), ("v*c", lambda v, c: v * c), ("v/c", lambda v, c: v / c),
    ("v**c", lambda v, c: v**c), ("c+v", lambda v, c: c + v), ("c-v", lambda v, c: c - v), ("c*v", lambda v, c: c * v),
    ("c/v", lambda v, c: c / v), ("-v", lambda v, c: -v), ("abs", lambda v, c: abs(v)), ("sqrt", lambda v, c: np.sqrt(v)),
    ("sin", lambda v, c: np.sin(v)), ("cos", lambda v, c: np.cos(v)), ("floor", lambda v, c: np.floor(v)), ("ceil", lambda v, c: np.ceil(v)),
    ("v", lambda v, c: v),
]
PAIR_WFS = ["Blackman", "Constant", "Kaiser", "Ramp(a,a)", "Ramp(0,a)"]


def pair_cases(tier):
    out = [("pairs", "expr", i, j) for i in range(len(PAIR_EXPRS)) for j in range(len(PAIR_EXPRS)) if i != j]
    out += [("pairs", "wf", i, j) for i in range(len(PAIR_WFS)) for j in range(len(PAIR_WFS)) if i != j]
    return out


def _pair_wf(kind, t, a):
    from pulser.waveforms import BlackmanWaveform, ConstantWaveform, KaiserWaveform, RampWaveform

    return {"Blackman": lambda: BlackmanWaveform(t, a), "Constant": lambda: ConstantWaveform(t, a), "Kaiser": lambda: KaiserWaveform(t, a),
            "Ramp(a,a)": lambda: RampWaveform(t, a, a), "Ramp(0,a)": lambda: RampWaveform(t, 0.0, a)}[kind]()


def run_pairs(what, i, j):
    from pulser import Pulse

    w = World(WORLD)
    out = []

    def program(seq, a, t):
        seq.declare_channel("g", "rydberg_global")
        if what == "expr":
            for k in (i, j):
                seq.add(Pulse.ConstantPulse(t, 1.0, PAIR_EXPRS[k][1](a, 2.0), 0.0), "g")
        else:
            for k in (i, j):
                seq.add(Pulse.ConstantDetuning(_pair_wf(PAIR_WFS[k], t, a), 0.0, 0.0), "g")

    with warnings.catch_warnings():
        warnings.simplefilter("ignore")
        tmpl = w.fresh(apply_prefix=False)
        a = tmpl.declare_variable("a", dtype=float)
        t = tmpl.declare_variable("t", dtype=int)
        try:
            program(tmpl, a, t)
        except Exception as e:
            return [(f"C08:pairs:template-raises:{type(e).__name__}", f"{what} {i},{j}: {e}"[:200])]
        names = (PAIR_EXPRS[i][0], PAIR_EXPRS[j][0]) if what == "expr" else (PAIR_WFS[i], PAIR_WFS[j])
        for av, tv in ((1.5, 100), (0.75, 200), (1.5, 100)):
            d = w.fresh(apply_prefix=False)
            try:
                program(d, np.float64(av), tv)
            except Exception:
                continue
            try:
                b = tmpl.build(a=av, t=tv)
            except Exception as e:
                out.append((f"C08:pairs:build-raises:{what}:{type(e).__name__}", f"{names} with a={av}, t={tv}: {e}"[:200]))
                continue
            if snapshot.snap(b, False).key() != snapshot.snap(d, False).key():
                out.append((f"C08:pairs:build-differs-from-direct:{what}", f"arguments {names[0]} then {names[1]} over the same operands, a={av}, t={tv}"))
    return out + [("@pairs", "")]


# ---- mappable registers ------------------------------------------------------------------------------
QIDS = [("b", "a", "c"), ("q2", "q10", "q1"), (2, 0, 1)]


def mappable_cases():
    out = []
    for qi, qids in enumerate(QIDS):
        for k in range(1, 4):
            for traps in itertools.permutations(range(4), k):
                out.append((qi, traps))
    return out


def run_mappable(qi, traps):
    from pulser import Pulse, Sequence
    from pulser.register.mappable_reg import MappableRegister
    from pulser.register.register_layout import RegisterLayout

    w = World(WORLD)
    qids = QIDS[qi]
    L = RegisterLayout([(0.0, 0.0), (8.0, 0.0), (0.0, 8.0), (8.0, 8.0)])
    k = len(traps)
    out = []
    with warnings.catch_warnings():
        warnings.simplefilter("ignore")
        mr = MappableRegister(L, *qids)
        tmpl = Sequence(mr, w.device)
        tmpl.declare_channel("l", "raman_local")
        idx = tmpl.declare_variable("i", dtype=int)
        tmpl.target_index(idx, "l")
        tmpl.add(Pulse.ConstantPulse(100, 1.0, 0.0, 0.0, post_phase_shift=0.5), "l")
        tmpl.phase_shift_index(0.25, 0, basis="digital")
        tmpl.phase_shift(0.125, basis="digital")  # no targets given: every qubit OF THE BUILT REGISTER (fewer than declared when k < 3)
        for i in range(k):
            # every insertion order of the mapping
            for order in itertools.permutations(range(k)):
                mapping = {qids[j]: traps[j] for j in order}
                try:
                    b = tmpl.build(qubits=mapping, i=i)
                except Exception as e:
                    out.append((f"C08:mappable-build-raises:{type(e).__name__}", f"ids {qids}, mapping {mapping}, index {i}: {e}"[:250]))
                    continue
                got_ids = list(b.register.qubit_ids)
                if got_ids != list(qids[:k]):
                    out.append(("C08:mappable-register-order", f"declared {qids[:k]}, mapping given as {list(mapping)}: built register order {got_ids}"))
                    continue
                pos_ok = all(np.allclose(np.asarray(b.register.qubits[qids[j]].as_array(detach=True) if hasattr(b.register.qubits[qids[j]], "as_array") else b.register.qubits[qids[j]]),
                                         L.traps_dict[traps[j]]) for j in range(k))
                if not pos_ok:
                    out.append(("C08:mappable-register-positions", f"ids {qids}, mapping {mapping}"))
                reg = L.define_register(*traps, qubit_ids=list(qids[:k]))
                d = Sequence(reg, w.device)
                d.declare_channel("l", "raman_local")
                d.target_index(i, "l")
                d.add(Pulse.ConstantPulse(100, 1.0, 0.0, 0.0, post_phase_shift=0.5), "l")
                d.phase_shift_index(0.25, 0, basis="digital")
                d.phase_shift(0.125, basis="digital")
                sb, sd = snapshot.snap(b, False), snapshot.snap(d, False)
                # a built sequence keeps (unobservable) phase-reference entries of qubits that were not mapped
                for basis in sb.basis_ref:
                    sb.basis_ref[basis] = {q: v for q, v in sb.basis_ref[basis].items() if q in qids[:k]}
                if sb.key() != sd.key():
                    out.append(("C08:mappable-build-differs-from-direct", f"ids {qids}, mapping {mapping}, index {i}"))
                tgt = sb.channels["l"].slots[0].targets
                if tgt != (str(qids[i]) if False else tgt) or list(map(str, tgt)) != [str(qids[i])]:
                    out.append(("C08:index-targeting", f"index {i} resolved to {tgt}, declared order {qids}"))
    return out + [("@mappable", "")]


FRAC_IDX = (0.5, 0.8999999999999999, 1.5, 1.9999999, 2.5, 2.0000001, -0.5, 0.4999, 3.2)
FRAC_WAYS = ("var", "v*3", "v/2", "item", "v+0.5")


def fracidx_cases(tier):
    """Index values that are NOT integral (what floating-point index arithmetic yields): the built sequence resolves them exactly as the
    direct call does (or both refuse)."""
    return [("fracidx", x, way, meth, m) for x in FRAC_IDX for way in FRAC_WAYS for meth in ("target_index", "phase_shift_index") for m in (False, True)]


def run_fracidx(x, way, meth, mappable):
    from pulser import Pulse

    w = World(WORLD)

    def prog(seq, idx):
        seq.declare_channel("l", "raman_local", initial_target="q1")
        seq.add(Pulse.ConstantPulse(52, 1.0, 0.0, 0.0, post_phase_shift=0.5), "l")
        if meth == "target_index":
            seq.target_index(idx, "l")
        else:
            seq.phase_shift_index(0.75, idx, basis="digital")
        seq.add(Pulse.ConstantPulse(52, 1.0, 0.0, 0.25), "l")

    with warnings.catch_warnings():
        warnings.simplefilter("ignore")
        d = w.fresh(apply_prefix=False)
        try:
            prog(d, x)
            want = snapshot.snap(d, with_calls=False).key()
        except Exception as e:
            want = ("refused", type(e).__name__)
        qmap = {}
        if mappable:
            t, mapping = mappable_template(w)
            qmap = {"qubits": mapping}
        else:
            t = w.fresh(apply_prefix=False)
        if way == "item":
            v = t.declare_variable("v", size=3, dtype=float)
            expr, val = v[1], [0.0, x, 0.0]
        else:
            v = t.declare_variable("v", dtype=float)
            expr, val = {"var": (v, x), "v*3": (v * 3, x / 3), "v/2": (v / 2, x * 2), "v+0.5": (v + 0.5, x - 0.5)}[way]
            if way != "var":  # the value the expression really evaluates to
                ev = {"v*3": np.float64(val) * 3, "v/2": np.float64(val) / 2, "v+0.5": np.float64(val) + 0.5}[way]
                if float(ev) != x:
                    dd = w.fresh(apply_prefix=False)
                    try:
                        prog(dd, float(ev))
                        want = snapshot.snap(dd, with_calls=False).key()
                    except Exception as e:
                        want = ("refused", type(e).__name__)
        try:
            prog(t, expr)
        except Exception as e:
            return gridx.crash_finding(e, "writing-the-template", f"{x} {way} {meth}") or [("@template-refused", "")]
        try:
            b = t.build(v=val, **qmap)
            sb = snapshot.snap(b, with_calls=False)
            got = sb.key()
        except Exception as e:
            got = ("refused", type(e).__name__)
        if got != want:
            what = "refused" if got[0] == "refused" else ("accepted" if want[0] == "refused" else "differs")
            detail = ""
            if what == "differs":
                detail = f"; targets after the call: built {[sl.targets for sl in sb.channels['l'].slots]}"
            return [(f"C08:non-integral-index:{meth}:{'mappable:' if mappable else ''}build-{what}", f"index value {x!r} through {way}: direct construction {'refused' if want[0] == 'refused' else 'accepted'}{detail}"[:300])]
    return [("@fracidx", "")]


# ---- collections of indices that HOLD variables ------------------------------------------------------------------------------
# target_index takes one index or a collection of indices; a collection may hold variables (items of an array variable, scalar
# variables, expressions) next to plain numbers.  The template accepts them (it looks for variables inside collections), so the
# built sequence has to be the one the direct call with the numbers gives.
IDXCOLL_KINDS = ("list", "tuple", "set")
IDXCOLL_CONTENTS = ("items", "item+literal", "scalar+literal", "expr+item", "whole-array", "single-item")


def idxcoll_cases(tier):
    return [("idxcoll", k, c, m, kw) for k in IDXCOLL_KINDS for c in IDXCOLL_CONTENTS for m in (False, True) for kw in (False, True)]


def run_idxcoll(kind, content, mappable, by_keyword):
    from pulser import Pulse

    w = World(WORLD)
    mk = {"list": list, "tuple": tuple, "set": set}[kind]

    def prog(seq, idx):
        seq.declare_channel("l", "raman_local", initial_target="q1")
        seq.add(Pulse.ConstantPulse(52, 1.0, 0.0, 0.0, post_phase_shift=0.5), "l")
        if by_keyword:
            seq.target_index(qubits=idx, channel="l")
        else:
            seq.target_index(idx, "l")
        seq.add(Pulse.ConstantPulse(52, 1.0, 0.0, 0.25), "l")

    with warnings.catch_warnings():
        warnings.simplefilter("ignore")
        qmap = {}
        if mappable:
            t, mapping = mappable_template(w)
            qmap = {"qubits": mapping}
        else:
            t = w.fresh(apply_prefix=False)
        a = t.declare_variable("a", size=2, dtype=int)
        sv = t.declare_variable("s", dtype=int)
        vals = {"a": [2, 0], "s": 2}
        if content == "items":
            expr, direct = mk([a[0], a[1]]), mk([2, 0])
        elif content == "item+literal":
            expr, direct = mk([a[1], 2]), mk([0, 2])
        elif content == "scalar+literal":
            expr, direct = mk([0, sv]), mk([0, 2])
        elif content == "expr+item":
            expr, direct = mk([sv - 2, a[0]]), mk([0, 2])
        elif content == "single-item":
            expr, direct = mk([a[0]]), mk([2])
        else:  # the whole array variable, no collection around it: the control
            expr, direct = a, [2, 0]
        d = w.fresh(apply_prefix=False)
        try:
            prog(d, direct)
            want = snapshot.snap(d, with_calls=False).key()
        except Exception as e:  # noqa: BLE001
            want = ("refused", type(e).__name__)
        try:
            prog(t, expr)
        except Exception as e:  # noqa: BLE001
            if want[0] == "refused":
                return [("@idxcoll-both-refuse", "")]
            return [(f"C08:index-collection:{content}:template-refused", f"a {kind} of indices holding variables ({content}) is refused by the template "
                     f"({type(e).__name__}: {str(e)[:120]}) while the direct call with the numbers is accepted")]
        used = vals  # every declared variable needs a value, used or not
        try:
            b = t.build(**used, **qmap)
            got = snapshot.snap(b, with_calls=False).key()
        except Exception as e:  # noqa: BLE001
            got = ("refused", type(e).__name__, str(e)[:100])
        if got[0] == "refused" and want[0] == "refused":
            return [("@idxcoll-both-refuse", "")]
        if got != want:
            what = "refused" if got[0] == "refused" else ("accepted" if want[0] == "refused" else "differs")
            return [(f"C08:index-collection:{content}:{'mappable:' if mappable else ''}build-{what}",
                     f"target_index given a {kind} of indices holding variables ({content}{', by keyword' if by_keyword else ''}): the template accepts the "
                     f"call, direct construction with the numbers is {'refused' if want[0] == 'refused' else 'accepted'}, the build "
                     f"{'raises ' + got[1] + ': ' + got[2] if got[0] == 'refused' else 'gives another sequence'}")]
    return [("@idxcoll", "")]



def worker(case):
    if case[0] == "idxcoll":
        return run_idxcoll(*case[1:])
    if case[0] == "fracidx":
        return run_fracidx(*case[1:])
    if case[0] == "pairs":
        return run_pairs(case[1], case[2], case[3])
    if case[0] == "progi":
        out = run_prog(case[1], case[2], mappable=case[4], interrupt=case[3])
        return [(fp.replace("C08:", "C08:built-while-being-written:", 1) if fp.startswith("C08:") else fp, d) for fp, d in out]
    if case[0] in ("prog", "progm"):
        out = run_prog(case[1], case[2], mappable=case[0] == "progm")
        if case[0] == "progm":  # distinct fingerprints for the mappable variant
            out = [(fp.replace("C08:", "C08:mappable-template:", 1) if fp.startswith("C08:") else fp, d) for fp, d in out]
        return out
    return run_mappable(case[1], case[2])


def run(tier, seed):
    res = Result("exploration")
    cs = cases(tier)
    outs = gridx.run(worker, cs)
    classes = {}
    for c, r in zip(cs, outs):
        for fp, d in r:
            if fp.startswith("@"):
                classes[fp] = classes.get(fp, 0) + 1
            else:
                if c[0] in ("pairs", "fracidx", "idxcoll"):
                    res.add(Violation(fp, d, {"engine": "progx", "case": list(c)}, size=0))
                    continue
                if c[0] == "progi":
                    res.add(Violation(fp, d, {"engine": "progx", "case": [c[0], c[1], {str(k): v for k, v in c[2].items()}, c[3], c[4]]}, size=1))
                    continue
                res.add(Violation(fp, d, {"engine": "progx", "case": [c[0], c[1], c[2] if c[0] not in ("prog", "progm") else {str(k): v for k, v in c[2].items()}]},
                                  size=len(c[2]) if c[0] in ("prog", "progm") else 0))
    res.coverage = dict(
        evaluations=len(cs), distinct_nontrivial=classes.get("@compared", 0) + classes.get("@mappable", 0) + classes.get("@pairs", 0) + classes.get("@fracidx", 0) + classes.get("@idxcoll", 0), exhaustive=True,
        outcome_classes=classes,
        rule="7 skeleton programs (pulses of every waveform class, delays, phase shifts, EOM with drift correction, DMM, index targeting, "
             "XY) x every subset of their numeric argument positions replaced by variable expressions (14 expression kinds rotating; "
             "every kind at every single position; every kind pair on the first two positions) x assignments A, B built in orders "
             "A,B,A and B,A,A, plus failed builds; mappable registers: 3 declared-id orders x every injective mapping of 1-3 ids onto 4 "
             "traps x every mapping insertion order x every index; non-trivial = cases in which template and direct construction "
             "were both built and compared",
        samples=[str(cs[i])[:200] for i in (0, len(cs) // 2, len(cs) - 1)])
    res.assumptions = ["assignments are restricted to those the direct construction accepts",
                       "expression kinds whose inverse does not reach the target value are skipped for that position"]
    return res


def replay(payload):
    c = payload["case"]
    if c[0] == "progi":
        return [Violation(fp, d, payload) for fp, d in worker((c[0], c[1], {int(k): v for k, v in c[2].items()}, c[3], c[4])) if not fp.startswith("@")]
    if c[0] in ("prog", "progm"):
        return [Violation(fp, d, payload) for fp, d in worker((c[0], c[1], {int(k): v for k, v in c[2].items()})) if not fp.startswith("@")]
    if c[0] == "pairs":
        return [Violation(fp, d, payload) for fp, d in run_pairs(c[1], c[2], c[3]) if not fp.startswith("@")]
    if c[0] == "fracidx":
        return [Violation(fp, d, payload) for fp, d in run_fracidx(*c[1:]) if not fp.startswith("@")]
    if c[0] == "idxcoll":
        return [Violation(fp, d, payload) for fp, d in run_idxcoll(*c[1:]) if not fp.startswith("@")]
    return [Violation(fp, d, payload) for fp, d in run_mappable(c[1], tuple(c[2])) if not fp.startswith("@")]
