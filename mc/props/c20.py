"""C20 — observables and results are correct functions of the emulated state.
GridX over states (kets and density matrices, 2-4 levels, 1-3 qudits) x operator representations x observables with
numpy definitions as the oracle; end-to-end V2 runs over evaluation-time configurations; RNG tapes for BitStrings."""
from __future__ import annotations

import itertools
import math
import warnings
from collections import Counter

import numpy as np

from mc import gridx
from mc.evidence import Result, Violation

EIGS = {2: [("r", "g"), ("g", "h"), ("u", "d")], 3: [("r", "g", "h"), ("r", "g", "x")], 4: [("r", "g", "h", "x")]}


def basis_vec(dim, n, idx):
    v = np.zeros(dim**n, dtype=complex)
    v[idx] = 1
    return v


def state_family(dim, n):
    """Deterministic family of pure and mixed states on n qudits of dimension dim: list of (name, rho, ket or None)."""
    N = dim**n
    fam = []
    kets = {
        "first": basis_vec(dim, n, 0),
        "last": basis_vec(dim, n, N - 1),
        "plus": np.ones(N, dtype=complex) / math.sqrt(N),
        "signed": np.array([(-1) ** i * (1 + 0.5j * i) for i in range(N)], dtype=complex),
        "ramp": np.array([i + 1 for i in range(N)], dtype=complex),
    }
    if n >= 2:
        e = np.zeros(N, dtype=complex)
        e[0], e[N - 1] = 1, 1j
        kets["entangled"] = e
    for k, v in kets.items():
        v = v / np.linalg.norm(v)
        fam.append((k, np.outer(v, v.conj()), v))
    ks = list(kets.values())
    a, b = ks[2] / np.linalg.norm(ks[2]), ks[3] / np.linalg.norm(ks[3])
    fam.append(("mix-1/4-3/4", 0.25 * np.outer(a, a.conj()) + 0.75 * np.outer(b, b.conj()), None))
    c, e2 = ks[3] / np.linalg.norm(ks[3]), ks[-1] / np.linalg.norm(ks[-1])
    fam.append(("mix-complex", 0.6 * np.outer(c, c.conj()) + 0.4 * np.outer(e2, e2.conj()), None))  # complex off-diagonal elements
    fam.append(("max-mixed", np.eye(N, dtype=complex) / N, None))
    d = np.diag(np.arange(1, N + 1, dtype=float))
    fam.append(("diag", (d / np.trace(d)).astype(complex), None))
    return fam


def hermitian(dim, n, variant):
    N = dim**n
    rng = np.arange(N * N, dtype=float).reshape(N, N)
    m = np.sin(rng * (0.37 + variant)) + 1j * np.cos(rng * (0.11 + 0.5 * variant))
    h = (m + m.conj().T) / 2
    if variant == 2:  # rank one
        v = np.arange(1, N + 1, dtype=complex)
        v /= np.linalg.norm(v)
        h = 3.0 * np.outer(v, v.conj())
    return h


def n_op(dim, eig, one, n, i):
    p = np.zeros((dim, dim), dtype=complex)
    k = eig.index(one)
    p[k, k] = 1
    out = np.array([[1.0 + 0j]])
    for j in range(n):
        out = np.kron(out, p if j == i else np.eye(dim))
    return out


# ---- histories of evaluations: an observable's value depends on the state it is given, not on what was evaluated before ----------
def obshist_cases(tier):
    """Every ordered pair of eigenstate tuples of one dimension (incl. the same labels in another order) that share a label x that
    label as one_state x 1-2 qudits: evaluate on the first, then on the second, in ONE process."""
    out = []
    fam = {2: [("r", "g"), ("g", "r"), ("g", "h"), ("h", "g"), ("u", "d")], 3: [("r", "g", "h"), ("g", "r", "h"), ("r", "g", "x"), ("g", "h", "x")]}
    for dim, eigs in fam.items():
        for a, b in itertools.permutations(eigs, 2):
            for one in sorted(set(a) & set(b)):
                for n in (1, 2):
                    out.append(("obshist", dim, a, b, one, n))
    return out


def check_obshist(dim, eig_a, eig_b, one, n):
    import qutip
    from pulser.backend import CorrelationMatrix, Occupation
    from pulser_simulation.qutip_op import QutipOperator
    from pulser_simulation.qutip_state import QutipState

    out = []
    dims = [[dim] * n, [dim] * n]
    fam = state_family(dim, n)
    for step, eig in (("first", eig_a), ("second", eig_b)):
        name, rho, ket = fam[len(fam) // 2]
        st = QutipState(qutip.Qobj(rho, dims=dims), eigenstates=eig)
        Hop = QutipOperator(qutip.Qobj(hermitian(dim, n, 1), dims=dims), eigenstates=eig)
        kw = dict(config=None, state=st, hamiltonian=Hop)
        exp_occ = [float(np.real(np.trace(rho @ n_op(dim, list(eig), one, n, i)))) for i in range(n)]
        exp_c = [[float(np.real(np.trace(rho @ n_op(dim, list(eig), one, n, i) @ n_op(dim, list(eig), one, n, j)))) for j in range(n)] for i in range(n)]
        for nm, cls, exp in (("occupation", Occupation, exp_occ), ("correlation-matrix", CorrelationMatrix, exp_c)):
            try:
                got = np.asarray(cls(one_state=one).apply(**kw), dtype=complex)
            except Exception as e:  # noqa: BLE001
                if step == "first":
                    continue  # what came before the first step belongs to other cases of this worker: not replayable, not reported here
                out.append((f"C20:{nm}-depends-on-earlier-evaluations:{step}:raises",
                            f"{type(e).__name__}: one_state {one!r} on eigenstates {eig} ({step} of the history {eig_a} -> {eig_b}, n={n}): {e}"[:300]))
                continue
            if step == "second" and np.max(np.abs(got.reshape(np.asarray(exp).shape) - np.asarray(exp))) > 1e-9:
                out.append((f"C20:{nm}-depends-on-earlier-evaluations:{step}:value", f"one_state {one!r} on eigenstates {eig} ({step} of the history "
                            f"{eig_a} -> {eig_b}, n={n}): {got.tolist()} vs {exp}"[:300]))
    return out or [("@obshist", "")]



def obs_cases(tier):
    out = []
    for dim, eigs in EIGS.items():
        for eig in eigs:
            nmax = 3 if dim == 2 else 2
            if tier == "thorough" and dim == 2:
                nmax = 4
            for n in range(1, nmax + 1):
                for si in range(len(state_family(dim, n))):
                    for hv in (0, 1, 2):
                        out.append(("obs", dim, eig, n, si, hv))
    return out


def check_obs(dim, eig, n, si, hv):
    import qutip
    from pulser.backend import CorrelationMatrix, Energy, EnergySecondMoment, EnergyVariance, Expectation, Fidelity, Occupation
    from pulser_simulation.qutip_op import QutipOperator
    from pulser_simulation.qutip_state import QutipState

    name, rho, ket = state_family(dim, n)[si]
    H = hermitian(dim, n, hv)
    dims = [[dim] * n, [dim] * n]
    as_objs = []
    if ket is not None:
        as_objs.append(("ket", QutipState(qutip.Qobj(ket.reshape(-1, 1), dims=[[dim] * n, [1] * n]), eigenstates=eig)))
    as_objs.append(("dm", QutipState(qutip.Qobj(rho, dims=dims), eigenstates=eig)))
    Hop = QutipOperator(qutip.Qobj(H, dims=dims), eigenstates=eig)
    out = []
    kind = "pure" if ket is not None else "mixed"
    ones = [s for s in eig if s in ("r", "h", "d")] or [eig[0]]
    for rep, st in as_objs:
        tag = f"{kind}-{rep}:dim={dim}"
        kw = dict(config=None, state=st, hamiltonian=Hop)
        e = float(np.real(np.trace(rho @ H)))
        e2 = float(np.real(np.trace(rho @ H @ H)))
        checks = [
            ("energy", Energy().apply(**kw), e),
            ("energy-second-moment", EnergySecondMoment().apply(**kw), e2),
            ("energy-variance", EnergyVariance().apply(**kw), e2 - e * e),
        ]
        for nm, got, exp in checks:
            got = complex(got)
            if abs(got - exp) > 1e-9 * max(1.0, abs(exp)):
                out.append((f"C20:{nm}:{tag}", f"state {name}, H variant {hv}, n={n}, eigenstates {eig}: {got:.6g} vs Tr-definition {exp:.6g}"))
        for one in ones:
            occ = Occupation(one_state=one).apply(**kw)
            exp_occ = [float(np.real(np.trace(rho @ n_op(dim, eig, one, n, i)))) for i in range(n)]
            if np.max(np.abs(np.asarray(occ, dtype=complex).ravel() - exp_occ)) > 1e-9:
                out.append((f"C20:occupation:{tag}", f"state {name}, one_state {one}: {occ} vs {exp_occ}"))
            corr = CorrelationMatrix(one_state=one).apply(**kw)
            exp_c = [[float(np.real(np.trace(rho @ n_op(dim, eig, one, n, i) @ n_op(dim, eig, one, n, j)))) for j in range(n)] for i in range(n)]
            if np.max(np.abs(np.asarray(corr, dtype=complex) - np.asarray(exp_c))) > 1e-9:
                out.append((f"C20:correlation-matrix:{tag}", f"state {name}, one_state {one}: {corr} vs {exp_c}"))
        # bitstring probabilities: every basis state contributes to the bitstring it maps to (one_state -> 1, others -> 0)
        diag = np.real(np.diag(rho))
        for one in ones:
            expbp = {}
            for idx, pr in enumerate(diag):
                digs = []
                k = idx
                for _ in range(n):
                    digs.append(k % dim)
                    k //= dim
                bs = "".join("1" if eig[dg] == one else "0" for dg in reversed(digs))
                expbp[bs] = expbp.get(bs, 0.0) + float(pr)
            gotbp = st.bitstring_probabilities(one_state=one, cutoff=0.0)
            if abs(sum(gotbp.values()) - 1) > 1e-9 or any(abs(gotbp.get(b, 0.0) - v) > 1e-9 for b, v in expbp.items()):
                out.append((f"C20:bitstring-probabilities:{tag}", f"state {name}, one_state {one}: {dict(gotbp)} vs {expbp}"))
        # fidelity with every pure member of the family, expectation of a non-Hermitian operator
        for nm2, rho2, ket2 in state_family(dim, n):
            # reference given as a ket (pure members) and as a density matrix (every member): overlap = Tr[rho_ref rho]
            refs = [("dm", QutipState(qutip.Qobj(rho2, dims=dims), eigenstates=eig))]
            if ket2 is not None:
                refs.append(("ket", QutipState(qutip.Qobj(ket2.reshape(-1, 1), dims=[[dim] * n, [1] * n]), eigenstates=eig)))
            exp_f = float(np.real(np.trace(rho2 @ rho)))
            for rk, other in refs:
                f = Fidelity(other).apply(**kw)
                if abs(complex(f) - exp_f) > 1e-9:
                    out.append((f"C20:fidelity:{tag}:reference-{rk}", f"state {name} vs {nm2}: {f} vs Tr[rho_ref rho] = {exp_f}"))
                g = other.overlap(st)
                if abs(complex(g) - exp_f) > 1e-9:
                    out.append((f"C20:overlap:{tag}:reference-{rk}", f"{nm2}.overlap({name}) = {g} vs {exp_f}"))
        A = hermitian(dim, n, 1) * (0.3 + 0.7j) + np.triu(np.ones((dim**n, dim**n))) * 0.1
        ex = Expectation(QutipOperator(qutip.Qobj(A, dims=dims), eigenstates=eig)).apply(**kw)
        exp_ex = complex(np.trace(rho @ A))
        if abs(complex(ex) - exp_ex) > 1e-9 * max(1, abs(exp_ex)):
            out.append((f"C20:expectation:{tag}", f"state {name}: {ex} vs {exp_ex}"))
        # operator algebra on this state
        B = QutipOperator(qutip.Qobj(A, dims=dims), eigenstates=eig)
        M = {"add": ((Hop + B)._operator.full(), H + A), "rmul": (((2 - 3j) * B)._operator.full(), (2 - 3j) * A),
             "matmul": ((Hop @ B)._operator.full(), H @ A)}
        for nm3, (got, exp) in M.items():
            if np.abs(got - exp).max() > 1e-12 * max(1, np.abs(exp).max()):
                out.append((f"C20:operator-{nm3}:dim={dim}", f"n={n}"))
        ap = B.apply_to(st)._state.full()
        exp_ap = A @ (ket.reshape(-1, 1) if rep == "ket" else rho @ A.conj().T) if rep == "ket" else A @ rho @ A.conj().T
        if rep == "ket":
            exp_ap = A @ ket.reshape(-1, 1)
        if np.abs(ap - exp_ap).max() > 1e-12 * max(1, np.abs(exp_ap).max()):
            out.append((f"C20:operator-apply_to:{rep}:dim={dim}", f"n={n}, state {name}"))
    return out + [("@obs", "")]


# ---- operator / state representations -----------------------------------------------------------------------
def repr_cases(tier):
    out = []
    for dim, eigs in EIGS.items():
        eig = eigs[0]
        for n in (1, 2, 3):
            if dim**n > 27:
                continue
            for shape in range(10):
                out.append(("oprepr", dim, eig, n, shape))
            for si in range(4):
                out.append(("strepr", dim, eig, n, si))
    return out


def check_oprepr(dim, eig, n, shape):
    from pulser_simulation.qutip_op import QutipOperator

    out = []
    projs = [a + b for a in eig for b in eig]
    q1 = {projs[0]: 1.0, projs[1]: 2.0j, projs[-1]: -0.5}
    q2 = {projs[-2]: 1.5 - 1j}
    allq = set(range(n))
    a_, b_ = eig[0], eig[1]
    X_ = {a_ + b_: 1.0, b_ + a_: 1.0}
    Y_ = {a_ + b_: -1j, b_ + a_: 1j}
    Z_ = {a_ + a_: 1.0, b_ + b_: -1.0}
    Z2_ = {a_ + a_: 0.25, b_ + b_: 4.0}
    I_ = {a_ + a_: 1.0, b_ + b_: 1.0}
    shapes = [
        [(1.0, [])],  # identity
        [(2.0 - 1j, [(q1, {0})])],
        [(1.0, [(q1, allq)])],  # same single-qudit operator on every qudit
        [(0.5, [(q1, {0}), (q2, {n - 1})])] if n > 1 else [(0.5, [(q2, {0})])],
        [(1.0, [(q1, {0})]), (-2.0j, [(q2, {n - 1})]), (3.0, [])],
        [(1.0, [({p: (i + 1) * (1 if i % 2 else 1j) for i, p in enumerate(projs)}, {n // 2})])],
        # several single-qudit operators with the SAME projector keys and different coefficients (X / Y / Z / identity written out)
        [(0.5, [(X_, {0}), (Y_, {n - 1})])] if n > 1 else [(0.5, [(X_, {0})]), (2.0, [(Y_, {0})])],
        [(1.0, [(X_, {0}), (X_, {n - 1})] if n > 1 else [(X_, {0})]), (1.0, [(Y_, {0}), (Y_, {n - 1})] if n > 1 else [(Y_, {0})]),
         (1.0, [(Z_, {0}), (Z_, {n - 1})] if n > 1 else [(Z_, {0})])],
        [(1.0, [(Z_, {0})]), (3.0, [(I_, {0})]), (-1.0, [(Z2_, {n - 1})])],
        [(1.0, [(Y_, {0})]), (1.0, [(X_, {n - 1})])],
    ]
    ops = shapes[shape]
    try:
        op = QutipOperator.from_operator_repr(eigenstates=eig, n_qudits=n, operations=ops)
    except Exception as e:
        return [(f"C20:operator-repr-raises:{type(e).__name__}", f"dim {dim}, n {n}, shape {shape}: {e}"[:200])]

    def qudit(qop):
        m = np.zeros((dim, dim), dtype=complex)
        for k, c in qop.items():
            m[eig.index(k[0]), eig.index(k[1])] += c
        return m

    exp = np.zeros((dim**n, dim**n), dtype=complex)
    for coeff, tensor in ops:
        mats = [np.eye(dim, dtype=complex) for _ in range(n)]
        for qop, inds in tensor:
            for i in inds:
                mats[i] = qudit(qop)
        t = np.array([[1.0 + 0j]])
        for m in mats:
            t = np.kron(t, m)
        exp += coeff * t
    got = op._operator.full()
    if np.abs(got - exp).max() > 1e-12:
        out.append((f"C20:operator-repr-differs:shape={shape}", f"dim {dim}, n {n}: max diff {np.abs(got - exp).max()}"))
    return out + [("@oprepr", "")]


def check_strepr(dim, eig, n, si):
    from pulser_simulation.qutip_state import QutipState

    strings = ["".join(t) for t in itertools.product(eig, repeat=n)]
    amps_sets = [
        {strings[0]: 1.0},
        {strings[-1]: 1j},
        {strings[0]: 0.6, strings[-1]: -0.8j},
        {s: (i + 1) * (1j if i % 3 == 0 else 1) for i, s in enumerate(strings)},
    ]
    amps = amps_sets[si]
    st = QutipState.from_state_amplitudes(eigenstates=eig, amplitudes=amps)
    exp = np.zeros(dim**n, dtype=complex)
    for s, a in amps.items():
        idx = 0
        for ch in s:
            idx = idx * dim + eig.index(ch)
        exp[idx] += a
    got = st.to_qobj().full().ravel()
    out = []
    # the constructor may normalise: compare up to normalisation only when the input was normalised
    if abs(np.linalg.norm(exp) - 1) < 1e-12:
        if np.abs(got - exp).max() > 1e-12:
            out.append(("C20:state-amplitudes-differ", f"dim {dim}, n {n}, {amps}"))
    else:
        if np.abs(got / np.linalg.norm(got) - exp / np.linalg.norm(exp)).max() > 1e-12:
            out.append(("C20:state-amplitudes-differ", f"dim {dim}, n {n}, {amps}"))
    probs = st.probabilities()
    expp = np.abs(exp) ** 2 / np.sum(np.abs(exp) ** 2)
    for s, p in probs.items():
        idx = 0
        for ch in s:
            idx = idx * dim + eig.index(ch)
        if abs(p - expp[idx]) > 1e-12:
            out.append(("C20:state-probabilities", f"{s}: {p} vs {expp[idx]}"))
    if abs(sum(probs.values()) - 1) > 1e-12:
        out.append(("C20:state-probabilities-sum", f"{sum(probs.values())}"))
    for i, s in enumerate(strings):
        if st.get_basis_state_from_index(i) != s:
            out.append(("C20:basis-state-index", f"{i}: {st.get_basis_state_from_index(i)} vs {s}"))
            break
    return out + [("@strepr", "")]


# ---- end-to-end runs --------------------------------------------------------------------------------------
E2E_TIMES = [None, (0.0, 0.5, 1.0), (1.0, 0.25), (0.3,), (0.0, 1.0, 0.5, 0.5000000001)]
E2E_DEFAULT = ["Full", (1.0,), (0.0, 0.4, 1.0)]
E2E_NOISE = [None, dict(dephasing_rate=0.2), dict(relaxation_rate=0.3, p_false_pos=0.1)]


def e2e_cases(tier):
    out = []
    for ti, tj, di, ni in itertools.product(range(len(E2E_TIMES)), range(len(E2E_TIMES)), range(len(E2E_DEFAULT)), range(len(E2E_NOISE))):
        if tier == "quick" and (ti + 2 * tj + di + ni) % 3:
            continue
        out.append(("e2e", ti, tj, di, ni))
    # the same with output modulation on a channel of finite bandwidth: the emulation lasts LONGER than the programmed sequence
    # (modulation tail), so relative times refer to the emulated duration - for the states and for the Hamiltonian alike
    for ti, tj, di, ni in itertools.product(range(len(E2E_TIMES)), range(len(E2E_TIMES)), range(len(E2E_DEFAULT)), range(len(E2E_NOISE))):
        if tier == "quick" and (ti + tj + 2 * di + ni) % 4:
            continue
        out.append(("e2e", ti, tj, di, ni, 1))
    return out


def check_e2e(ti, tj, di, ni, mi=0):
    from pulser import Pulse, Register, Sequence
    from pulser.backend import CorrelationMatrix, Energy, EnergySecondMoment, EnergyVariance, Occupation, StateResult
    from pulser.noise_model import NoiseModel
    from pulser_simulation import QutipBackendV2, QutipConfig

    from mc.worlds import World

    dev = World(dict(name="e2e", bw=8) if mi else dict(name="e2e")).device
    seq = Sequence(Register({"q0": (0.0, 0.0), "q1": (6.0, 0.0)}), dev)
    seq.declare_channel("g", "rydberg_global")
    seq.add(Pulse.ConstantPulse(80, 5.0, 1.0, 0.0), "g")
    seq.add(Pulse.ConstantPulse(40, 2.0, -3.0, 1.0), "g")
    t1, t2 = E2E_TIMES[ti], E2E_TIMES[tj]
    try:
        obs = [StateResult(evaluation_times=t1), Occupation(evaluation_times=t2), Energy(evaluation_times=t1, tag_suffix="a"),
               EnergyVariance(evaluation_times=t2), EnergySecondMoment(), CorrelationMatrix(evaluation_times=t1)]
        cfg = QutipConfig(observables=obs, default_evaluation_times=E2E_DEFAULT[di], noise_model=NoiseModel(**(E2E_NOISE[ni] or {})),
                          **(dict(with_modulation=True) if mi else {}))
    except Exception as e:
        return [("@config-refused", type(e).__name__)]
    out = []
    try:
        res = QutipBackendV2(seq, config=cfg).run()
    except Exception as e:
        return [(f"C20:run-raises:{type(e).__name__}", f"times {t1}/{t2}, default {E2E_DEFAULT[di]}, noise {E2E_NOISE[ni]}: {e}"[:250])]
    T = res.total_duration
    if mi:
        if T <= seq.get_duration():
            return [("C20:modulated-emulation-not-longer-than-the-program", f"{T} vs {seq.get_duration()}")]
    for o in obs:
        want = o.evaluation_times if o.evaluation_times is not None else E2E_DEFAULT[di]
        times = res.get_result_times(o)
        if times != res.get_result_times(o.tag):
            out.append(("C20:results-by-tag-differ", o.tag))
        if times != sorted(times) or len(set(times)) != len(times):
            out.append((f"C20:result-times-not-ascending:{o._base_tag}", f"{times}"))
        if want != "Full":
            # one value per requested time (requests closer than the tolerance 1e-6 count once)
            req = sorted(set(round(float(x), 6) for x in want))
            got = sorted(set(round(float(x), 6) for x in times))
            if set(req) - set(got):
                out.append((f"C20:requested-time-not-stored:{o._base_tag}", f"requested {sorted(want)}, stored {times}"))
            elif req != got:  # only additional times
                out.append((f"C20:result-times-differ-from-request:{o._base_tag}", f"requested {sorted(want)}, stored {times}"))
        else:
            if len(times) < T // 2:
                out.append((f"C20:full-evaluation-times-missing:{o._base_tag}", f"{len(times)} times for {T} ns"))
        vals = getattr(res, o.tag)
        if len(vals) != len(times) or res.get_tagged_results()[o.tag] != vals and not isinstance(vals[0], object):
            out.append((f"C20:results-length:{o._base_tag}", f"{len(vals)} vs {len(times)}"))
    # values equal their definitions on the stored state (where the state is stored at the same time)
    st_times = res.get_result_times(obs[0])
    sim = QutipBackendV2(seq, config=cfg)._sim_obj
    for o in obs[1:]:
        for t in res.get_result_times(o):
            m = [s for s in st_times if abs(s - t) <= 1e-9]
            if not m:
                continue
            st = res.get_result(obs[0], m[0]).to_qobj()
            rho = st.full() if st.isoper else np.outer(st.full().ravel(), st.full().ravel().conj())
            H = sim.get_hamiltonian(t * T, noiseless=True).full()
            val = res.get_result(o, t)
            if o._base_tag == "energy":
                exp = np.real(np.trace(rho @ H))
            elif o._base_tag == "energy_second_moment":
                exp = np.real(np.trace(rho @ H @ H))
            elif o._base_tag == "energy_variance":
                exp = np.real(np.trace(rho @ H @ H)) - np.real(np.trace(rho @ H)) ** 2
            elif o._base_tag == "occupation":
                exp = np.array([np.real(np.trace(rho @ n_op(2, ("r", "g"), "r", 2, i))) for i in range(2)])
            elif o._base_tag == "correlation_matrix":
                exp = np.array([[np.real(np.trace(rho @ n_op(2, ("r", "g"), "r", 2, i) @ n_op(2, ("r", "g"), "r", 2, j))) for j in range(2)] for i in range(2)])
            else:
                continue
            if np.max(np.abs(np.asarray(val, dtype=complex) - exp)) > 1e-7 * max(1.0, float(np.max(np.abs(exp)))):
                kind = "mixed" if st.isoper else "pure"
                out.append((f"C20:stored-{o._base_tag}-differs-from-definition:{kind}{':with-modulation' if mi else ''}", f"t={t}: {val} vs {exp}"))
    return out + [("@e2e", "")]



# ---- evaluation times x every sequence duration (float conversion of relative times) ----------------------------------
SWEEP_TIMES = [(0.1, 0.4, 0.75), (0.2, 0.6, 1.0), (0.75, 1.0), (1 / 3, 2 / 3), (0.3, 0.7, 0.9), (0.05, 0.95)]


def tsweep_cases(tier):
    hi = 330 if tier == "quick" else 1500
    return [("tsweep", T, li) for T in range(16, hi) for li in range(len(SWEEP_TIMES))]


def check_tsweep(T, li):
    """One value per requested evaluation time, for every duration: requested lists are used both as the default times and
    as an observable's own times (so that no additional default time can hide a missing one)."""
    from pulser import Pulse, Register, Sequence
    from pulser.backend import Occupation, StateResult
    from pulser_simulation import QutipBackendV2, QutipConfig

    from mc.worlds import World

    dev = World(dict(name="e2e")).device
    seq = Sequence(Register({"q0": (0.0, 0.0)}), dev)
    seq.declare_channel("g", "rydberg_global")
    seq.add(Pulse.ConstantPulse(T, 3.0, 0.5, 0.0), "g")
    want = SWEEP_TIMES[li]
    obs = [StateResult(), Occupation(evaluation_times=want)]
    try:
        res = QutipBackendV2(seq, config=QutipConfig(observables=obs, default_evaluation_times=want)).run()
    except Exception as e:
        return [(f"C20:run-raises:{type(e).__name__}", f"T={T}, times {want}: {e}"[:200])]
    out = []
    req = sorted(set(round(float(x), 6) for x in want))
    for o in obs:
        times = res.get_result_times(o)
        got = sorted(set(round(float(x), 6) for x in times))
        if set(req) - set(got):
            out.append((f"C20:requested-time-not-stored:{o._base_tag}", f"T={T}: requested {list(want)}, stored {times}"))
        elif len(times) != len(req):
            out.append((f"C20:time-stored-twice:{o._base_tag}", f"T={T}: requested {list(want)}, stored {times}"))
        if times != sorted(times):
            out.append((f"C20:result-times-not-ascending:{o._base_tag}", f"T={T}: {times}"))
        if len(getattr(res, o.tag)) != len(times):
            out.append((f"C20:results-length:{o._base_tag}", f"T={T}"))
    return out + [("@tsweep", "")]



# ---- the Results store: one value per stored time, retrievable by exactly that time ------------------------------------
RS_GRID = [0.0, 1e-7, 0.25, 0.25 * (1 + 4e-6), 0.5, math.nextafter(0.5, 1.0), 0.999995, 1.0 - 1e-9, 1.0]


def rstore_cases(tier):
    out = []
    for r in range(1, 5 if tier == "quick" else 6):
        for sub in itertools.combinations(range(len(RS_GRID)), r):
            out.append(("rstore", sub))
    return out


def check_rstore(sub):
    """Values stored for two observables at the times `sub` of RS_GRID (some of them closer than 1e-5 relative): every value is
    returned for exactly its own time, by observable and by tag; other times are refused; the store is ascending and append-only."""
    from pulser.backend import Occupation, StateResult
    from pulser.backend.results import Results

    times = [RS_GRID[i] for i in sub]
    res = Results(atom_order=("q0",), total_duration=1_000_000)
    obs = [Occupation(), StateResult(tag_suffix="s")]
    out = []
    for k, o in enumerate(obs):
        for j, t in enumerate(times):
            res._store(observable=o, time=t, value=(k, j, t))
    for k, o in enumerate(obs):
        for how, key in (("observable", o), ("tag", o.tag)):
            if res.get_result_times(key) != times:
                out.append((f"C20:results-store:times:{how}", f"{res.get_result_times(key)} vs stored {times}"))
            for j, t in enumerate(times):
                try:
                    got = res.get_result(key, t)
                except Exception as e:
                    out.append((f"C20:results-store:stored-time-refused:{how}", f"time {t!r} of {times}: {e}"[:200]))
                    continue
                if got != (k, j, t):
                    out.append((f"C20:results-store:wrong-value:{how}", f"get_result at {t!r} returned the value stored at {got[2]!r} (times {times})"))
            # times that are clearly not stored (farther than 1e-4 from every stored time) must not be answered
            for t in ([(a + b) / 2 for a, b in zip(times, times[1:]) if b - a > 2e-4] + [times[-1] + 1e-3]):
                try:
                    got = res.get_result(key, t)
                    out.append((f"C20:results-store:unstored-time-answered:{how}", f"get_result at {t!r} (not stored; stored {times}) returned {got}"))
                except ValueError:
                    pass
        if getattr(res, o.tag) != [(k, j, t) for j, t in enumerate(times)] or res.get_tagged_results()[o.tag] != getattr(res, o.tag):
            out.append(("C20:results-store:tag-attribute", f"{o.tag}"))
        try:
            res._store(observable=o, time=times[-1], value="again")
            out.append(("C20:results-store:same-time-stored-twice", f"{times[-1]!r}"))
        except RuntimeError:
            pass
    return out + [("@rstore", "")]


# ---- BitStrings observable follows the measurement probabilities (RNG tape) -------------------------------------
def bit_cases(tier):
    out = []
    for pfp, pfn in ((0.0, 0.0), (0.2, 0.0), (0.0, 0.4), (0.2, 0.4)):
        for us in itertools.product((0.0, 0.1, 0.36, 0.36 + 1e-9, 0.9, 1 - 1e-12), repeat=2):
            fl = (0.0, 0.2 - 1e-9, 0.2, 0.4 - 1e-9, 0.4, 0.99)
            fsets = [()] if not (pfp or pfn) else list(itertools.product(fl, repeat=4))[:: (7 if tier == "quick" else 1)]
            for fs in fsets:
                out.append(("bits", pfp, pfn, us, fs))
    return out


def check_bits(pfp, pfn, us, fs):
    import numpy.random as npr
    import qutip
    from pulser.backend import BitStrings, EmulationConfig
    from pulser.backend.results import Results
    from pulser.noise_model import NoiseModel
    from pulser_simulation.qutip_state import QutipState

    from mc.props.c11 import Tape

    diag = np.array([0.36, 0.0, 0.24, 0.40])  # rr, rg, gr, gg
    rho = qutip.Qobj(np.diag(diag), dims=[[2, 2], [2, 2]])
    st = QutipState(rho, eigenstates=("r", "g"))
    kw = {}
    if pfp:
        kw["p_false_pos"] = pfp
    if pfn:
        kw["p_false_neg"] = pfn
    obs = BitStrings(num_shots=2, evaluation_times=(1.0,))
    cfg = EmulationConfig(observables=[obs], noise_model=NoiseModel(**kw))
    res = Results(atom_order=("q0", "q1"), total_duration=100)
    tape = Tape(list(us) + list(fs))
    saved = (npr.rand, npr.uniform)
    npr.rand, npr.uniform = tape.rand, tape.uniform
    try:
        obs(config=cfg, t=1.0, state=st, hamiltonian=None, result=res)
    except Exception as e:
        return [(f"C20:bitstrings-raises:{type(e).__name__}", f"{e}"[:200])]
    finally:
        npr.rand, npr.uniform = saved
    if tape.pos != len(tape.values):
        return [("@tape-not-consumed", "")]
    got = res.get_result(obs, 1.0)
    # reference from the measurement probabilities: rr->11 0.36, gr->01 0.24, gg->00 0.40 in the order the state lists them
    bp = st.bitstring_probabilities(one_state="r", cutoff=1 / 2000)
    keys = list(bp)
    c = np.cumsum([float(bp[k]) for k in keys])
    exp = Counter()
    fl = list(fs)
    out = []
    ambiguous = any(abs(u - x) < 1e-15 for u in us for x in c[:-1])
    for u in us:
        i = min(int(np.searchsorted(c, u, side="right")), len(keys) - 1)
        bits = [int(ch) for ch in keys[i]]
        if pfp or pfn:
            for j, b in enumerate(bits):
                x = fl.pop(0)
                if x < (pfn if b == 1 else pfp):
                    bits[j] = 1 - b
        exp["".join(map(str, bits))] += 1
    if "10" in got and not (pfp or pfn):
        out.append(("C20:zero-probability-bitstring-sampled", f"u={us}"))
    if Counter(got) != exp and not ambiguous:
        out.append(("C20:bitstrings-differ-from-probabilities", f"rates ({pfp},{pfn}) u={us} f={fs}: {dict(got)} vs {dict(exp)}"))
    return out + [("@bits", "")]


TAG_CLASHES = ["energy+variance", "energy+second_moment", "occupation+custom-suffix", "bitstrings-twice", "distinct"]


def tagclash_cases(tier):
    return [("tagclash", k) for k in TAG_CLASHES]


def check_tagclash(kind):
    """Two observables whose TAGS coincide (a tag is '<base tag>_<suffix>', so observables of different classes can share one): the
    configuration is refused, or every observable's values are retrievable by its tag."""
    from pulser import Pulse, Register, Sequence
    from pulser.backend import BitStrings, Energy, EnergySecondMoment, EnergyVariance, Occupation
    from pulser_simulation import QutipBackendV2, QutipConfig

    from mc.worlds import World

    t = [0.25, 0.5, 1.0]
    obs = {
        "energy+variance": lambda: [Energy(evaluation_times=t, tag_suffix="variance"), EnergyVariance(evaluation_times=t)],
        "energy+second_moment": lambda: [EnergySecondMoment(evaluation_times=t), Energy(evaluation_times=t, tag_suffix="second_moment")],
        "occupation+custom-suffix": lambda: [Occupation(evaluation_times=t, tag_suffix="x"), Occupation(evaluation_times=t, tag_suffix="x", one_state="g")],
        "bitstrings-twice": lambda: [BitStrings(evaluation_times=t), BitStrings(evaluation_times=t, num_shots=7)],
        "distinct": lambda: [Energy(evaluation_times=t), EnergyVariance(evaluation_times=t)],
    }[kind]()
    if len({o.tag for o in obs}) == len(obs) and kind != "distinct":
        return [("@tags-do-not-coincide", "")]
    try:
        cfg = QutipConfig(observables=obs)
    except (ValueError, TypeError):
        return [("C20:distinct-tags-refused", kind)] if kind == "distinct" else [("@tagclash-refused", "")]
    dev = World(dict(name="e2e")).device
    seq = Sequence(Register({"q0": (0.0, 0.0), "q1": (6.0, 0.0)}), dev)
    seq.declare_channel("g", "rydberg_global")
    seq.add(Pulse.ConstantPulse(80, 5.0, 1.0, 0.0), "g")
    try:
        res = QutipBackendV2(seq, config=cfg).run()
    except Exception as e:
        return gridx.crash_finding(e, "running-the-emulator", kind) or [("@tagclash-run-refused", type(e).__name__)]
    out = []
    for o in obs:
        for tt in t:
            try:
                by_obs, by_tag = res.get_result(o, tt), res.get_result(o.tag, tt)
            except Exception as e:
                out.append((f"C20:result-not-retrievable:{kind}", f"{o.tag} at {tt}: {e}"[:160]))
                break
            if not np.allclose(np.asarray(by_obs, dtype=complex), np.asarray(by_tag, dtype=complex)):
                out.append((f"C20:result-by-tag-is-another-observables:{kind}", f"tag {o.tag!r} at t={tt}: by observable {by_obs!r}, by tag {by_tag!r}"[:220]))
                break
    return out + [("@tagclash", "")]


def _in_fresh_child(fn, args):
    """fn(*args) once more in this worker after forgetting what earlier cases left behind: every functools cache of the process and every
    class-level dict cache of pulser.backend.default_observables is cleared first.  Returns None when the call still raises (then the
    exception belongs to the case itself)."""
    import functools
    import gc

    for obj in gc.get_objects():
        try:
            if isinstance(obj, functools._lru_cache_wrapper):
                obj.cache_clear()
        except Exception:  # noqa: BLE001
            pass
    import pulser.backend.default_observables as dobs

    for cls in vars(dobs).values():
        if isinstance(cls, type):
            for nm, val in list(vars(cls).items()):
                if isinstance(val, dict) and nm.startswith("_") and not nm.startswith("__"):
                    val.clear()
    try:
        return fn(*args)
    except Exception:  # noqa: BLE001
        return None



def worker(case):
    with warnings.catch_warnings():
        warnings.simplefilter("ignore")
        k = case[0]
        if k == "obs":
            try:
                return check_obs(*case[1:])
            except Exception:  # noqa: BLE001
                # raised in a pooled worker that has evaluated other cases before: decide in a fresh child whether the case ALONE raises
                # (then the exception is this case's finding and propagates), or whether it is the worker's history (then the isolated
                # history family above is in charge of reporting it, replayably)
                alone = _in_fresh_child(check_obs, case[1:])
                if alone is None:
                    raise
                return alone + [("@raised-only-after-other-cases-of-the-worker", "")]
        if k == "obshist":
            return check_obshist(*case[1:])
        if k == "oprepr":
            return check_oprepr(*case[1:])
        if k == "strepr":
            return check_strepr(*case[1:])
        if k == "e2e":
            return check_e2e(*case[1:])
        if k == "bits":
            return check_bits(*case[1:])
        if k == "tsweep":
            return check_tsweep(*case[1:])
        if k == "rstore":
            return check_rstore(case[1])
        if k == "tagclash":
            return check_tagclash(case[1])
    return []


def run(tier, seed):
    res = Result("exploration")
    cases = obs_cases(tier) + repr_cases(tier) + e2e_cases(tier) + bit_cases(tier) + tsweep_cases(tier) + rstore_cases(tier) + tagclash_cases(tier)
    outs = gridx.run(worker, cases, chunksize=4)
    # histories of evaluations: each in a freshly forked process, so that the history is exactly the one written in the case
    hist = obshist_cases(tier)
    outs += gridx.run(worker, hist, isolate=True)
    cases += hist
    classes = {}
    for c, r in zip(cases, outs):
        for fp, d in r:
            if fp.startswith("@"):
                classes[fp] = classes.get(fp, 0) + 1
            else:
                res.add(Violation(fp, d, {"engine": "grid", "case": repr(c)}))
    res.coverage = dict(
        evaluations=len(cases), distinct_nontrivial=sum(v for k, v in classes.items() if k in ("@obs", "@oprepr", "@strepr", "@e2e", "@bits", "@tsweep", "@rstore")),
        exhaustive=True, outcome_classes=classes,
        rule="states: 8-9 member family (basis states, uniform, signed/complex, entangled, 1/4-3/4 mixture, maximally mixed, diagonal) as "
             "ket and as density matrix x eigenstate sets of 2, 3 and 4 levels x 1-3 qudits x 3 Hamiltonians (two full rank, one rank "
             "one): Occupation, CorrelationMatrix, Energy, EnergySecondMoment, EnergyVariance, Fidelity (vs every pure member), "
             "Expectation (non-Hermitian operator) against numpy trace definitions, operator algebra; 6 operator-representation shapes "
             "and 4 amplitude sets per (levels, qudits) against explicit Kronecker products; end-to-end V2 runs over per-observable "
             "time lists (incl. unsorted and near-duplicate) x default times x noise; BitStrings under every RNG tape of a menu; "
             "every sequence duration 16..N ns x 6 evaluation-time lists not starting at 0 (one stored value per requested time)",
        samples=[repr(cases[i])[:160] for i in (0, len(cases) // 2, len(cases) - 1)])
    res.assumptions = ["1e-9 on algebraic identities, 1e-7 on values recomputed from stored solver states"]
    return res


def replay(payload):
    case = eval(payload["case"])
    return [Violation(fp, d, payload) for fp, d in worker(case) if not fp.startswith("@")]
