"""C14 — output modulation is an area-preserving low-pass and fall times cover it.
GridX over bandwidths x input families (filter axioms), waveform x bandwidth grid for the fall-time clause judged
by an independent non-circular Gaussian convolution, and a SeqX monitor for modulated sampling of sequences."""
from __future__ import annotations

import itertools
import math
import warnings

import numpy as np

from mc import alphabets as A
from mc import gridx, seqx
from mc.evidence import Result, Violation
from mc.worlds import corner, make_wf
from mc.monitors import pending_fall

BWS = [2.0, 8.0, 30.0, 100.0]


def chan(bw, eom_bw=None):
    from pulser.channels import Rydberg
    from pulser.channels.eom import RydbergBeam, RydbergEOM

    kw = {}
    if eom_bw:
        kw["eom_config"] = RydbergEOM(mod_bandwidth=eom_bw, limiting_beam=RydbergBeam.RED, max_limiting_amp=188.5,
                                      intermediate_detuning=2827.4, controlled_beams=(RydbergBeam.BLUE,))
    return Rydberg.Global(None, None, mod_bandwidth=bw, max_duration=None, **kw)


def families(n):
    """Non-negative and signed input families of length n."""
    t = np.arange(n)
    fam = {
        "impulse-start": np.eye(1, n, 0)[0],
        "impulse-mid": np.eye(1, n, n // 2)[0],
        "impulse-end": np.eye(1, n, n - 1)[0],
        "step": (t >= n // 3).astype(float),
        "box": ((t >= n // 4) & (t < 3 * n // 4)).astype(float),
        "ramp": t / max(1, n - 1),
        "blackman": np.clip(np.blackman(n), 0, None) if n > 2 else np.ones(n),
        "saw": (t % 7) / 7.0,
        "signed": np.sin(t / 3.0),
    }
    return fam


def filter_cases(tier):
    out = []
    lens = [1, 2, 3, 16, 100, 401]
    for bw, n, keep, eom in itertools.product(BWS, lens, [False, True], [False, True]):
        out.append(("axioms", bw, n, keep, eom))
    for bw in BWS + [20.0, 40.0]:
        out.append(("tone", bw))
    # the same law through Channel.modulate itself (which picks the bandwidth and the padding), standard and EOM path,
    # including bandwidths whose rise time 480/bw is not a whole number of ns
    for bw in [2.0, 7.0, 8.0, 13.0, 30.0, 50.0, 100.0]:
        out.append(("tone-modulate", bw, None))
    for eom_bw in [7.0, 20.0, 24.0, 40.0, 50.0, 90.0, 110.0, 300.0]:
        out.append(("tone-modulate", 8.0, eom_bw))
    return out


def check_axioms(bw, n, keep, eom):
    out = []
    ch = chan(bw, eom_bw=40.0 if eom else None)
    rise = ch.eom_config.rise_time if eom else ch.rise_time
    fam = families(n)
    names = list(fam)
    outs = {}
    tag = f"keep_ends={keep}:eom={eom}"
    for name, x in fam.items():
        y = np.asarray(ch.modulate(x, keep_ends=keep, eom=eom).as_array(detach=True), dtype=float)
        outs[name] = y
        exp_len = n + 2 * rise
        if len(y) != exp_len:
            out.append((f"C14:output-length:{tag}", f"bw {bw}, n {n}: {len(y)} vs {exp_len}"))
            continue
        if not np.all(np.isfinite(y)):
            out.append((f"C14:non-finite-output:{tag}", f"bw {bw}, {name}"))
            continue
        if not keep:
            if abs(y.sum() - x.sum()) > 1e-9 * max(1.0, np.abs(x).sum()):
                out.append((f"C14:integral-not-preserved:{tag}", f"bw {bw}, n {n}, {name}: {y.sum()} vs {x.sum()}"))
            tol = 1e-8 * max(1.0, float(np.abs(x).max()))  # FFT round-off of the truncated Gaussian response
            if x.min() >= 0 and y.min() < -tol:
                out.append((f"C14:negative-output:{tag}", f"bw {bw}, n {n}, {name}: min {y.min()}"))
            if y.max() > max(x.max(), 0.0) + tol:
                out.append((f"C14:output-above-input-max:{tag}", f"bw {bw}, n {n}, {name}: {y.max()} > {x.max()}"))
            if y.min() < min(x.min(), 0.0) - tol:
                out.append((f"C14:output-below-input-min:{tag}", f"bw {bw}, n {n}, {name}"))
    if len(outs) == len(fam) and all(len(v) == n + 2 * rise for v in outs.values()):
        for (a, b), (ca, cb) in itertools.product(itertools.combinations(names[:6], 2), [(1.0, 1.0), (2.5, -0.5)]):
            z = np.asarray(ch.modulate(ca * fam[a] + cb * fam[b], keep_ends=keep, eom=eom).as_array(detach=True), dtype=float)
            if np.max(np.abs(z - (ca * outs[a] + cb * outs[b]))) > 1e-9:
                out.append((f"C14:not-linear:{tag}", f"bw {bw}, n {n}: {ca}*{a} + {cb}*{b}"))
                break
    return out


def check_tone(bw):
    """A tone at the modulation bandwidth, with a whole number of periods in the padded window, is halved."""
    ch = chan(bw)
    rise = ch.rise_time
    f = bw * 1e-3  # cycles per ns
    # choose n so that (n + 2 rise) * f is an integer
    from fractions import Fraction

    per = Fraction(1) / Fraction(bw).limit_denominator(1000) * 1000  # period in ns
    total = per
    while total < 2 * rise + 50 or total.denominator != 1:
        total += per
    n = int(total) - 2 * rise
    t = np.arange(-rise, n + rise)
    x_full = np.sin(2 * np.pi * f * t)
    x = x_full[rise:-rise] if rise else x_full
    # modulate pads with zeros, so build the periodic tone directly through the transfer function instead
    y = np.asarray(ch.apply_modulation(x_full, bw).as_array(detach=True), dtype=float)
    if len(y) != len(x_full):
        return [("C14:apply-modulation-length", f"bw {bw}: {len(y)} output samples for {len(x_full)} input samples")]
    amp = 2 * abs(np.sum(y * np.exp(-2j * np.pi * f * t))) / len(y)  # amplitude of the tone component
    if abs(amp - 0.5) > 1e-3:
        return [("C14:tone-at-bandwidth", f"bw {bw}: amplitude {amp} instead of 0.5 ({len(x_full)} samples)")]
    return []


def check_tone_modulate(bw, eom_bw):
    """Steady-state gain of Channel.modulate (eom=False / True) for a tone at the respective bandwidth is 1/2."""
    from fractions import Fraction

    ch = chan(bw, eom_bw)
    use = eom_bw or bw
    pad = ch.eom_config.rise_time if eom_bw else ch.rise_time
    f = use * 1e-3  # cycles per ns
    per = 1000 / Fraction(use).limit_denominator(1000)  # period in ns (exact)
    k = 1
    while (k * per).denominator != 1 or k * per < 40:
        k += 1
    win = int(k * per)  # whole number of periods and of ns
    lead = 6 * pad + 50  # transient of the zero padding
    n = 2 * lead + win
    t = np.arange(n)
    x = np.sin(2 * np.pi * f * t)
    y = np.asarray(ch.modulate(x, eom=bool(eom_bw)).as_array(detach=True), dtype=float)
    if len(y) != n + 2 * pad:
        return [(f"C14:modulate-length:{'eom' if eom_bw else 'std'}", f"bw {use}: {len(y)} samples for {n} + 2 x {pad}")]
    seg = y[pad + lead: pad + lead + win]  # output frame: sample i is time i - pad
    tt = t[lead: lead + win]
    amp = 2 * abs(np.sum(seg * np.exp(-2j * np.pi * f * tt))) / win
    if abs(amp - 0.5) > 4e-3:
        return [(f"C14:tone-at-bandwidth:modulate:{'eom' if eom_bw else 'std'}", f"bandwidth {use} MHz (rise time {pad} ns): steady-state amplitude {amp:.4f} instead of 0.5")]
    return [("@tone-modulate", "")]


# ---- fall-time clause ----------------------------------------------------------------------------
def ref_output(x, bw, pad):
    """Independent non-circular Gaussian convolution: y(t) for t in [-pad, len(x)+pad)."""
    fc = bw * 1e-3 / math.sqrt(math.log(2))
    half = int(6 / (math.pi * fc)) + 2
    tt = np.arange(-half, half + 1)
    h = fc * math.sqrt(math.pi) * np.exp(-((math.pi * fc * tt) ** 2))
    h = h / h.sum()
    xp = np.concatenate([np.zeros(pad + half), x, np.zeros(pad + half)])
    y = np.convolve(xp, h, mode="same")
    return y[half: len(y) - half]


def wf_specs(dur, a):
    h = max(1, dur // 2)
    specs = {
        "constant": ["C", dur, a],
        "ramp-up": ["R", dur, 0.0, a],
        "ramp-down": ["R", dur, a, 0.0],
        "blackman": ["B", dur, a * dur * 0.42e-3],
        "kaiser": ["K", dur, a * dur * 0.3e-3],
        "interp": ["I", dur, [0.0, a, a / 3, a]],
        "plateau+short-zero": ["+", ["C", dur, a], ["C", 12, 0.0]],
        "plateau+short-low": ["+", ["C", dur, a], ["C", 8, a / 100]],
        "short-zero+plateau": ["+", ["C", 12, 0.0], ["C", dur, a]],
        "ramp+plateau": ["+", ["R", h, 0.0, a], ["C", dur - h if dur - h > 0 else 1, a]],
        "custom-step": ["X", [a] * h + [a / 2] * (dur - h if dur - h > 0 else 1)],
    }
    return specs


def fall_cases(tier):
    out = []
    bws = [2.0, 4.0, 8.0, 30.0] + ([5.0, 12.0, 20.0, 36.0] if tier == "thorough" else [])
    for bw, dur, a in itertools.product(bws, [16, 52, 100, 401], [0.1, 1.0, 20.0]):
        for name in wf_specs(dur, a):
            out.append(("fall", bw, dur, a, name, "amp"))
        for name in ("constant", "ramp-up", "ramp-down", "plateau+short-zero", "custom-step"):
            out.append(("fall", bw, dur, -a, name, "det"))
        out.append(("fall", bw, dur, a, "sign-change", "det"))
    for eom_bw, dur, a in itertools.product([20.0, 40.0], [16, 52, 100], [1.0, 20.0]):
        out.append(("fall-eom", 8.0, eom_bw, dur, a))
    # weak or zero amplitude with a large detuning (the detuning decides), on fast and slow EOMs
    for eom_bw, dur, (a, det) in itertools.product([5.0, 20.0, 40.0], [16, 52, 100], [(0.2, -20.0), (0.0, -15.0), (0.5, 5.0), (1.0, 20.0), (20.0, -0.5)]):
        out.append(("fall-eom", 8.0, eom_bw, dur, a, det))
    # both waveforms of one pulse non-trivial: the slower of the two tails decides (amplitude ending smoothly at zero with a
    # detuning that ends far from zero, and the other way round; shapes whose start and end differ)
    for bw, dur, a in itertools.product(bws, [52, 100, 401] + ([1000, 4000] if tier == "thorough" else [1000]), [1.0, 20.0]):
        for an, dn, sign in itertools.product(FALL2_AMP, FALL2_DET, (1, -1)):
            out.append(("fall2", bw, dur, a, an, dn, sign))
    return out


FALL2_AMP = ("blackman", "kaiser", "ramp-down", "early-step", "constant", "late-step")
FALL2_DET = ("ramp-up", "ramp-down", "late-step", "early-step", "zero", "blackman")


def wf_specs2(dur, a):
    h = max(1, dur // 2)
    d = wf_specs(dur, a)
    d["late-step"] = ["+", ["C", h, 0.0], ["C", dur - h, a]]
    d["early-step"] = ["+", ["C", h, a], ["C", dur - h, 0.0]]
    d["zero"] = ["C", dur, 0.0]
    return d


def check_fall2(bw, dur, a, an, dn, sign):
    """One pulse, both waveforms shaped: after the pulse's fall time neither output may still be present."""
    from pulser import Pulse

    ch = chan(bw)
    try:
        awf = make_wf(wf_specs2(dur, a)[an])
        dwf = make_wf(wf_specs2(dur, sign * a)[dn])
    except Exception:
        return [("@unbuildable", "")]
    xa = np.asarray(awf.samples.as_array(detach=True), dtype=float)
    xd = np.asarray(dwf.samples.as_array(detach=True), dtype=float)
    if len(xa) != len(xd) or np.any(xa < 0):
        return [("@unbuildable", "")]
    D = len(xa)
    pulse = Pulse(awf, dwf, 0.0)
    try:
        fall = pulse.fall_time(ch)
    except Exception as e:
        return [(f"C14:fall-time-of-a-valid-pulse-raises:{type(e).__name__}", f"bw {bw}, duration {D}, amp {an}, det {dn}: {e}"[:250])]
    rise = ch.rise_time
    pad = 6 * rise + 50
    out = []
    for role, x, nm in (("amp", xa, an), ("det", xd, dn)):
        peak = float(np.max(np.abs(x)))
        if peak == 0.0:
            continue
        y = ref_output(x, bw, pad)
        bound = max(0.01, 0.006 * peak)
        tail = np.abs(y[pad + D + fall - rise:])
        if len(tail) and tail.max() >= bound:
            out.append((f"C14:fall-time-too-short:two-waveforms:{role}:{nm}", f"bw {bw} MHz (rise {rise}), duration {D}, amplitude {an} / detuning {dn} "
                        f"(sign {sign}, scale {a}): {role} output {tail.max():.5g} still present {fall} ns after the end (bound {bound:.5g})"))
    # the fall time is not longer than the slower of the two waveforms needs on its own (no over-wait beyond 2 x rise)
    if fall > 2 * rise:
        out.append(("C14:fall-time-beyond-two-rise-times", f"bw {bw}, duration {D}, amp {an}, det {dn}: fall {fall} > 2 x rise {rise}"))
    return out + [("@fall2", "")]


def check_fall(bw, dur, a, name, role):
    from pulser import Pulse
    from pulser.waveforms import ConstantWaveform

    ch = chan(bw)
    if name == "sign-change":
        spec = ["R", dur, -a, a]
    else:
        spec = wf_specs(dur, a)[name]
    try:
        wf = make_wf(spec)
    except Exception:
        return [("@unbuildable", "")]
    x = np.asarray(wf.samples.as_array(detach=True), dtype=float)
    if not np.all(np.isfinite(x)):
        return [("@unbuildable", "")]
    D = len(x)
    if role == "amp":
        pulse = Pulse(wf, ConstantWaveform(D, 0.0), 0.0)
    else:
        pulse = Pulse(ConstantWaveform(D, 1.0), wf, 0.0)
    try:  # the library's own calls on a valid pulse / waveform must not raise
        fall = pulse.fall_time(ch)
        wf.modulated_samples(ch)
        wf.modulation_buffers(ch)
        if len(ch.modulate(x)) != D + 2 * ch.rise_time:
            return [(f"C14:output-length:{role}", f"bw {bw}, duration {D}: modulate returned {len(ch.modulate(x))} samples, expected {D} + 2 x {ch.rise_time}")]
    except Exception as e:
        return [(f"C14:modulation-of-a-valid-waveform-raises:{role}:{type(e).__name__}", f"bw {bw}, duration {D}, {name}: {e}"[:250])]
    rise = ch.rise_time
    pad = 6 * rise + 50
    y = ref_output(x, bw, pad)  # y[i] is the output at time i - pad
    peak = float(np.max(np.abs(x)))
    bound = max(0.01, 0.006 * peak)
    # Library output frame: the modulated samples start one rise time before the input and are placed at t = 0,
    # so "beyond the accounted fall time" is the true time D + fall - rise.
    tail = np.abs(y[pad + D + fall - rise:])
    out = []
    if len(tail) and tail.max() >= bound:
        out.append((f"C14:fall-time-too-short:{role}:{name}", f"bw {bw} MHz (rise {rise}), duration {D}, peak {peak}: output {tail.max():.5g} "
                    f"still present {fall} ns after the end (bound {bound:.5g}, {100 * tail.max() / peak:.3f}% of peak)"))
    # the library's own modulated samples agree with the independent convolution inside its window
    lib = np.asarray(wf.modulated_samples(ch).as_array(detach=True), dtype=float)
    start, end = wf.modulation_buffers(ch)
    # library frame: starts at -rise ... trimmed by buffers: compare on the overlap
    full = np.asarray(ch.modulate(x).as_array(detach=True), dtype=float)  # times -rise .. D+rise
    ref = y[pad - rise: pad + D + rise]
    # the library filters circularly with one rise time of padding: tails beyond it (<= 0.52 % per side) wrap around
    if np.max(np.abs(full - ref)) > 1.2e-2 * max(peak, 1e-9) + 1e-9:
        out.append((f"C14:modulate-differs-from-gaussian-filter:{role}", f"bw {bw}, {name}, duration {D}: max diff {np.max(np.abs(full - ref)):.4g}"))
    return out + [("@fall", "")]


def check_fall_eom(bw, eom_bw, dur, a, det=0.0):
    """A square pulse played in EOM mode: after its EOM fall time neither the amplitude nor the detuning output (EOM bandwidth)
    is still present - also when the amplitude is weak or zero and the detuning is what takes long to settle."""
    from pulser import Pulse

    ch = chan(bw, eom_bw)
    p = Pulse.ConstantPulse(dur, a, det, 0.0)
    fall = p.fall_time(ch, in_eom_mode=True)
    rise = ch.eom_config.rise_time
    pad = 6 * rise + 50
    out = []
    for role, v in (("amp", a), ("det", det)):
        if v == 0.0:
            continue
        y = ref_output(np.full(dur, float(v)), eom_bw, pad)
        bound = max(0.01, 0.006 * abs(v))
        tail = np.abs(y[pad + dur + fall - rise:])
        if len(tail) and tail.max() >= bound:
            out.append((f"C14:fall-time-too-short:eom{'' if role == 'amp' else ':detuning'}", f"EOM bw {eom_bw} (rise {rise}), duration {dur}, amp {a}, det {det}: "
                        f"{role} output {tail.max():.5g} after {fall} ns (bound {bound:.5g})"))
    return out + [("@fall-eom", "")]


def worker(case):
    with warnings.catch_warnings():
        warnings.simplefilter("ignore")
        k = case[0]
        fn = {"axioms": check_axioms, "tone": check_tone, "tone-modulate": check_tone_modulate, "fall": check_fall,
              "fall-eom": check_fall_eom, "fall2": check_fall2}.get(k)
        if fn is None:
            return []  # unknown kind: the vacuity guard of gridx.run reports it
        r = fn(*case[1:])
        return r if r else [("@" + k, "")]


# ---- sequences -----------------------------------------------------------------------------------
def mod_sampling(ctx):
    if ctx.exc is not None or not ctx.post.flags["building"]:
        return []
    if ctx.post.flags.get("fall_time_errors"):
        return [("C14:fall-time-of-a-scheduled-pulse-raises", ctx.post.flags["fall_time_errors"][0])]
    from pulser.sampler import sample

    seq = ctx.seq
    with warnings.catch_warnings():
        warnings.simplefilter("ignore")
        try:
            sample(seq)
        except Exception:
            return []
        ctx.act["sequences_sampled"] += 1
        if any(not any(s.kind == "pulse" for s in c.slots) for c in ctx.post.channels.values()):
            ctx.act["sequences_with_an_empty_channel"] += 1
        try:
            ms = sample(seq, modulation=True)
        except Exception as e:
            empty = [n for n, c in ctx.post.channels.items() if not any(s.kind == "pulse" for s in c.slots)]
            kind = "non-empty"
            if empty:
                kind = "empty-eom-channel" if any(ctx.post.channels[n].eom_blocks for n in empty) else "empty-channel"
            return [(f"C14:modulated-sampling-raises:{kind}:{type(e).__name__}", f"{e!r}"[:200])]
        out = []
        for name, ch in ctx.post.channels.items():
            cs = ms.channel_samples[name]
            exp = seq.get_duration(name, include_fall_time=True)
            if not (len(cs.amp) == len(cs.det) == len(cs.phase) == exp):
                out.append((f"C14:modulated-length:{'eom-open' if ch.in_eom() else 'std'}", f"{name}: {len(cs.amp)} vs duration with fall time {exp}"))
            # the same against the model's own account of the channel (end of the last instruction, or of the last pulse's fall time if later)
            ref = pending_fall(ch)
            ctx.act["modulated_length_against_the_model"] += 1
            if len(cs.amp) != ref:
                out.append((f"C14:modulated-arrays-do-not-end-at-the-duration-with-fall-time:{'eom-open' if ch.in_eom() else 'std'}",
                            f"{name}: {len(cs.amp)} samples, schedule ends at {ch.end}, with the last pulse's fall time {ref}"))
            if not np.all(np.isfinite(np.asarray(cs.amp.as_array(detach=True)))):
                out.append(("C14:modulated-non-finite", name))
        out += _sequence_level_values(ctx, seq, ms)
        return out


def _arr(x):
    return np.asarray(x.as_array(detach=True) if hasattr(x, "as_array") else x, dtype=float)


def _sequence_level_values(ctx, seq, ms):
    """What sample(seq, modulation=True) holds is the channel's own filter applied to what was scheduled: Channel.modulate (decided
    by the grid above) of the plain samples - everywhere for a channel without EOM blocks, and away from every EOM block (by more
    than the reach of either filter and of the buffers) for a channel with blocks."""
    from pulser.sampler import sample

    out = []
    try:
        ss = sample(seq)
    except Exception:
        return out
    for name, ch in ctx.post.channels.items():
        p = ctx.world.params(ch.ch_id)
        if not p["bw"] or name not in ms.channel_samples or name not in ss.channel_samples or not ch.slots:
            continue
        ch_obj = seq.declared_channels[name]
        lib_a, lib_d = _arr(ms.channel_samples[name].amp), _arr(ms.channel_samples[name].det)
        plain_a, plain_d = _arr(ss.channel_samples[name].amp), _arr(ss.channel_samples[name].det)
        if len(plain_a) == 0:
            continue
        try:
            ref_a, ref_d = _arr(ch_obj.modulate(plain_a)), _arr(ch_obj.modulate(plain_d, keep_ends=True))
        except Exception:
            continue
        n = min(len(lib_a), len(ref_a))
        peak_a, peak_d = max(1e-9, float(np.abs(plain_a).max())), max(1e-9, float(np.abs(plain_d).max()))
        # the filter preserves the integral: over the whole channel (fall time included) the modulated amplitude carries the area of
        # what was scheduled, whatever mix of ordinary pulses and EOM blocks it is made of (the two ends lose < 0.6 % of the last / first pulse)
        area_in, area_out = float(plain_a.sum()), float(lib_a.sum())
        slow_eom = bool(ch.eom_blocks) and p["eom"] and p["eom"]["rise"] > p["rise"]  # not demanded there, see DESIGN C.4
        if area_in > 0 and not slow_eom:
            ctx.act["sequence_level_area_compared"] += 1
            if len(ch.eom_blocks) > 1:
                ctx.act["sequence_level_area_compared:several-eom-blocks"] += 1
            edge = 0.012 * peak_a * max(1.0, float(p["rise"]))  # what may be cut at the two ends of the sampled window
            if abs(area_out - area_in) > 2e-3 * area_in + edge:
                out.append((f"C14:sequence-modulation-does-not-preserve-the-area:{'eom' if ch.eom_blocks else 'std'}",
                            f"{name}: scheduled area {area_in:.6g}, modulated {area_out:.6g} ({100 * (area_out / area_in - 1):+.2f} %), EOM blocks {[(b[3], b[4]) for b in ch.eom_blocks]}"))
        if not ch.eom_blocks:
            ctx.act["sequence_level_values:no-eom"] += 1
            if np.abs(lib_a[:n] - ref_a[:n]).max() > 1e-9 * max(1.0, peak_a):
                out.append(("C14:sequence-modulation-differs-from-the-channel-filter:amp", f"{name}: max diff {np.abs(lib_a[:n] - ref_a[:n]).max():.4g} (peak {peak_a:.4g})"))
            if np.abs(lib_d[:n] - ref_d[:n]).max() > 1e-9 * max(1.0, peak_d):
                out.append(("C14:sequence-modulation-differs-from-the-channel-filter:det", f"{name}: max diff {np.abs(lib_d[:n] - ref_d[:n]).max():.4g} (peak {peak_d:.4g})"))
            continue
        # with EOM blocks: amplitude only, away from every block
        rise, erise = p["rise"], (p["eom"]["rise"] if p["eom"] else 0)
        reach = 3 * max(rise, erise) + 2 * erise + (p["eom"]["buffer"] if p["eom"] else 0) + 2 * rise + 8
        far = np.ones(n, dtype=bool)
        std_a = plain_a.copy()
        for b in ch.eom_blocks:
            lo, hi = b[3], (ch.end if b[4] is None else b[4])
            far[max(0, lo - reach): min(n, hi + reach)] = False
            std_a[lo:hi] = 0.0  # what is played inside a block goes through the EOM's filter, not the channel's
        try:
            ref_a = _arr(ch_obj.modulate(std_a))
        except Exception:
            continue
        if far.any() and np.abs(plain_a).max() > 0:
            ctx.act["sequence_level_values:away-from-eom-blocks"] += 1
            d = float(np.abs(lib_a[:n] - ref_a[:n])[far].max())
            if d > 1e-4 * max(1.0, peak_a):
                t = int(np.flatnonzero(far)[np.argmax(np.abs(lib_a[:n] - ref_a[:n])[far])])
                out.append(("C14:ordinary-pulse-away-from-eom-blocks-not-filtered-by-the-channel:amp",
                            f"{name}: at t={t} (EOM blocks {[(b[3], b[4]) for b in ch.eom_blocks]}, more than {reach} ns away) output {lib_a[t]:.5g}, channel filter gives {ref_a[t]:.5g}"))
    return out


MONITORS = [mod_sampling]


def run(tier, seed):
    res = Result("exploration")
    cases = filter_cases(tier) + fall_cases(tier)
    outs = gridx.run(worker, cases)
    classes = {}
    for c, r in zip(cases, outs):
        for fp, d in r:
            if fp.startswith("@"):
                classes[fp] = classes.get(fp, 0) + 1
            else:
                res.add(Violation(fp, d, {"engine": "grid", "case": list(c)}))
    zero = [("add", ["c", 52, 0.0, 0.0, 1.5], "g"), ("add", ["c", 40, 0.0, 0.0, 0.7], "l", "no-delay")]  # phase-only pulses
    alpha = A.render(eom=True) + [("declare", "x", "rydberg_local", "q1")] + zero
    plan = [
        (corner("real", prefix=A.GL, qubits=2, name="real"), alpha, 2 if tier == "quick" else 3),
        (corner("mixed", prefix=A.GLD, qubits=2, name="mixed-dmm", over={"raman": dict(bw=None), "dmm": dict(bw=None)}),
         A.render(dmm="dmm_0") + zero, 2 if tier == "quick" else 3),
        # the EOM may be slower than / as fast as the channel's own modulation (nothing constrains the two bandwidths)
        (corner("unit8", prefix=[("declare", "g", "rydberg_global")], qubits=2, name="eom-slower-than-channel", bw=30, eom=dict(mod_bandwidth=8)),
         A.render(l=None, eom=True), 3),
        (corner("unit8", prefix=[("declare", "g", "rydberg_global")], qubits=2, name="eom-equal-to-channel", bw=10, eom=dict(mod_bandwidth=10)),
         A.render(l=None, eom=True), 3),
        # very fast channels: rise time 1 ns (the EOM buffer's equivalent bandwidth sits exactly at the 480 MHz limit) and 2 ns
        (corner("unit8", prefix=[("declare", "g", "rydberg_global")], qubits=2, name="eom-channel-bw-300", bw=300, eom=dict(mod_bandwidth=100)),
         A.render(l=None, eom=True), 3),
        (corner("unit8", prefix=[("declare", "g", "rydberg_global")], qubits=2, name="eom-channel-bw-479", bw=479, eom=dict(mod_bandwidth=240)),
         A.render(l=None, eom=True), 2),
        (corner("unit8", prefix=[("declare", "g", "rydberg_global")], qubits=2, name="eom-channel-bw-240", bw=240, eom=dict(mod_bandwidth=40)),
         A.render(l=None, eom=True), 2),
        # EOM mode enabled and disabled again on a still empty channel: a block of length zero at t = 0, then ordinary operation
        (corner("real", prefix=[("declare", "g", "rydberg_global"), ("enable_eom", "g", 2.0, 0.5, -10.0, False), ("disable_eom", "g", False)],
                qubits=2, name="zero-length-eom-block-at-0"), A.render(l=None, eom=True), 2),
        # a channel with SEVERAL EOM blocks (closed and re-opened; split by a change of setpoint): every block has its own falling edge
        (corner("real", prefix=[("declare", "g", "rydberg_global"), ("enable_eom", "g", 2.0, 0.5, -10.0, False), ("eom_pulse", "g", 52, 0.5, 0.0, "no-delay", False),
                                ("disable_eom", "g", False)], qubits=2, name="second-eom-block-after-a-closed-one"),
         A.render(l=None, eom=True), 3),
        (corner("real", prefix=[("declare", "g", "rydberg_global"), ("enable_eom", "g", 2.0, 0.5, -10.0, False), ("eom_pulse", "g", 100, 0.0, 0.0, "no-delay", False)],
                qubits=2, name="eom-block-split-by-a-new-setpoint"),
         A.render(l=None, eom=True) + [("modify_eom", "g", 1.0, 0.0, 5.0, False), ("modify_eom", "g", 3.0, -1.0, -20.0, True)], 3),
    ]
    cov = seqx.run_plan(res, plan, MONITORS)
    cov["evaluations"] = len(cases) + cov["transitions"]
    cov["distinct_nontrivial"] = len(cases) - classes.get("@unbuildable", 0)
    cov["grid_cases"] = len(cases)
    cov["outcome_classes"] = classes
    cov["samples"] = cov.get("samples", []) + [list(map(str, cases[i])) for i in (0, len(cases) // 2, len(cases) - 1)]
    cov["rule"] = ("filter axioms: bandwidth {2,8,30,100} x length {1,2,3,16,100,401} x keep_ends x EOM x 9 input families (+ pairwise "
                   "linear combinations); tone at the bandwidth; fall-time clause: bandwidth x duration {16,52,100,401} x amplitude "
                   "{0.1,1,20} x 11 amplitude shapes and 6 detuning shapes (incl. composites ending in a short hold, sign changes), EOM "
                   "bandwidths; sequences: every state of a depth 2-3 BFS incl. empty channels, channels without bandwidth, open EOM blocks")
    res.coverage = cov
    res.required_activations = ["sequences_sampled", "sequences_with_an_empty_channel", "modulated_length_against_the_model"]
    res.assumptions = ["the reference output is a non-circular convolution with the Gaussian impulse response of the documented transfer "
                       "function exp(-f^2/fc^2), fc = bw/sqrt(ln 2), on a zero-padded input",
                       "peak = maximum absolute input sample"]
    return res


def replay(payload):
    if payload.get("engine") == "grid":
        return [Violation(fp, d, payload) for fp, d in worker(tuple(payload["case"])) if not fp.startswith("@")]
    return seqx.replay(payload, MONITORS)
