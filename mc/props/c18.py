"""C18 — switching device or register preserves the program.
ProgX: programs (all histories up to depth 2 over a compact alphabet + long ones, parametrized variants) x ordered
pairs of devices differing in one (thorough: two) channel/device parameters x strict in {True, False}."""
from __future__ import annotations

import copy
import itertools
import warnings

import numpy as np

from mc import alphabets as A
from mc import gridx, snapshot
from mc.evidence import Result, Violation
from mc.props.c01 import inside
from mc.props.c09 import _diff
from mc.worlds import World, apply, corner

BASE = dict(name="base", clock=4, min_dur=16, bw=8, pjt=None, retarget=220, fixed_rt=0, eom={}, qubits=3, reusable=True,
            max_amp=10.0, max_det=60.0, max_dur=2000, bottom_det=-30.0, total_bottom_det=-60.0)

VARIANTS = {
    "clock=2": dict(clock=2),
    "clock=8": dict(clock=8),
    "min_dur=8": dict(min_dur=8),
    "min_dur=32": dict(min_dur=32),
    "bw=4": dict(bw=4),
    "bw=30": dict(bw=30),
    "pjt=0": dict(pjt=0),
    "pjt=42": dict(pjt=42),
    "pjt=120": dict(pjt=120),  # equal to the derived value 2*rise_time for 8 MHz
    "retarget=0": dict(retarget=0),
    "retarget=100": dict(retarget=100),
    "fixed_rt=32": dict(fixed_rt=32),
    "fixed_rt=220": dict(fixed_rt=220),
    "fixed_rt=10": dict(fixed_rt=10),  # off the clock grid (4 ns) and below the minimum duration (16 ns): the retarget slot is adjusted like any wait
    "fixed_rt=10,retarget=0": dict(fixed_rt=10, retarget=0),
    "eom-bw=20": dict(eom=dict(mod_bandwidth=20)),
    "eom-buffer=40": dict(eom=dict(custom_buffer_time=40)),
    "eom-buffer=240": dict(eom=dict(custom_buffer_time=240)),  # equal to the derived 2*rise_time
    "eom-beams=RB": dict(eom=dict(controlled_beams=["BLUE", "RED"])),
    "eom-beams=R": dict(eom=dict(controlled_beams=["RED"])),
    "eom-limiting=BLUE": dict(eom=dict(limiting_beam="BLUE")),
    "eom-none": dict(eom=None),
    "max_amp=1.2": dict(max_amp=1.2),
    "max_det=0.4": dict(max_det=0.4),
    "max_dur=60": dict(max_dur=60),
    "non-reusable": dict(reusable=False),
    "rydberg_level=70": dict(rydberg_level=70),
    "max_seq=300": dict(max_seq=300),
    "bottom=-1": dict(bottom_det=-1.0, total_bottom_det=-2.0),
    # between the per-atom limits of two detuning maps configured on ONE DMM id (largest weights 0.75 and 1.0, detuning -1.5)
    "bottom=-1.4": dict(bottom_det=-1.4, total_bottom_det=-60.0),
    "max_targets=1": dict(max_targets=1),
    "renamed": dict(),  # identical in every parameter: the switch must succeed and change nothing
}

ALPHA = [
    ("add", A.C52, "g"),
    ("add", A.C52P, "g"),
    ("add", A.B100, "l", "wait-for-all"),
    ("add", ["c", 50, 1.0, 0.5, 1.0], "l", "no-delay"),
    ("delay", 100, "g", True),
    ("target", "q1", "l"),
    ("align", ("g", "l"), True),
    ("enable_eom", "g", 2.0, 0.5, -10.0, True),
    ("eom_pulse", "g", 52, PI2 := A.PI2, 0.0, "min-delay", True),
    ("disable_eom", "g", False),
    ("add_dmm", ["C", 52, -1.5], "dmm_0"),
    ("phase_shift", 1.0, ("q0",), "digital"),
]
LONG = [
    [("add", A.C52, "l"), ("target", "q1", "l"), ("add", A.C52P, "l"), ("target", "q2", "l"), ("add", A.C52, "l")],
    [("enable_eom", "g", 2.0, 0.5, -10.0, False), ("eom_pulse", "g", 52, 0.0, 0.0, "min-delay", False), ("delay", 52, "g"),
     ("eom_pulse", "g", 50, A.PI2, 0.0, "min-delay", True), ("disable_eom", "g", True), ("add", A.C52, "g")],
    [("add", A.C52, "g"), ("add", A.C52P, "g"), ("add", A.C52, "g"), ("align", ("g", "l"), False), ("add", A.B100, "l")],
    # an automatically inserted delay shorter than a larger minimum duration (phase-jump buffer of 20 ns left)
    [("add", A.C52, "g"), ("delay", 220, "g"), ("add", A.C52P, "g")],
]
PREFIX = [("declare", "g", "rydberg_global"), ("declare", "l", "raman_local", "q0"), ("config_dmm", "m2", "dmm_0")]


GLp = [("declare", "g", "rydberg_global"), ("declare", "l", "raman_local", "q0")]
# programs on other prefixes: SLM mask (default / positional / keyword DMM id; before / after the first channel and pulse; Ising,
# XY and undetermined mode), magnetic field, measurement, variables
AUX = [
    # a Local channel declared with SEVERAL initial targets (the limit on simultaneous targets of the new device applies to them too)
    ([("declare", "g", "rydberg_global"), ("declare", "l", "raman_local", ["q0", "q1"])], [("add", A.C52, "l"), ("target", "q2", "l"), ("add", A.C52P, "l")]),
    ([("declare", "l", "raman_local", ["q1", "q2"])], [("add", A.C52, "l")]),
    ([("slm", ["q0"]), ("declare", "g", "rydberg_global")], [("add", A.C52, "g"), ("add", A.C52P, "g")]),
    ([("declare", "g", "rydberg_global"), ("slm", ["q1"], "dmm_0")], [("add", A.C52, "g")]),
    ([("declare", "g", "rydberg_global"), ("add", A.C52, "g"), ("raw", "config_slm_mask", [["q0", "q2"]], {"dmm_id": "dmm_1"})],
     [("add", A.C52P, "g")]),
    ([("slm", ["q0"]), ("declare", "m", "mw_global")], [("add", A.C52, "m"), ("delay", 52, "m"), ("add", A.C52P, "m")]),
    ([("magfield", 1.0, 2.0, 2.0), ("declare", "m", "mw_global"), ("slm", ["q1"], "dmm_0")], [("add", A.C52, "m")]),
    (GLp, [("add", A.C52, "g"), ("measure", "ground-rydberg")]),
    (GLp + [("declare_var", "x", "int")], [("delay_v", "x", "g"), ("add_v", "x", 52, "g"), ("add", A.C52P, "l")]),
    ([("slm", ["q0"])], []),
    ([("config_dmm", "m2", "dmm_0"), ("slm", ["q0"], "dmm_1"), ("declare", "g", "rydberg_global")],
     [("add", A.C52, "g"), ("add_dmm", ["C", 52, -1.5], "dmm_0")]),
    (GLp + [("declare_var", "x", "int"), ("slm", ["q2"])], [("add_v", "x", 52, "g")]),
    # two GLOBAL channels of different type / basis (a wrong match could replay one on the other without any refusal)
    ([("declare", "ram", "raman_global"), ("declare", "ryd", "rydberg_global")],
     [("add", A.C52, "ram"), ("add", A.C52P, "ryd"), ("align", ("ram", "ryd"), False), ("add", A.C16, "ram")]),
    ([("declare", "ryd", "rydberg_global"), ("declare", "ram", "raman_global")],
     [("add", A.C52, "ram"), ("add", A.C52P, "ryd", "no-delay"), ("add", A.C16, "ram", "wait-for-all")]),
    # EOM set point next to the detuning limit: the off-detuning chosen on the NEW device must respect the new limits too
    (GLp, [("enable_eom", "g", 2.0, -57.0, 0.0, False), ("eom_pulse", "g", 52, 0.0, 0.0, "min-delay", False), ("delay", 52, "g")]),
    (GLp, [("enable_eom", "g", 2.0, 59.5, 0.0, True), ("eom_pulse", "g", 52, 0.0, 0.0, "min-delay", True), ("modify_eom", "g", 1.0, 59.8, 0.0, True),
           ("eom_pulse", "g", 52, 0.0, 0.0, "min-delay", True)]),
    # the same DMM id configured twice (reusable devices), before / after the sequence became parametrized
    (GLp + [("declare_var", "x", "int"), ("delay_v", "x", "g"), ("config_dmm", "m2", "dmm_0"), ("config_dmm", "m1", "dmm_0")],
     [("add_dmm", ["C", 52, -1.5], "dmm_0_1"), ("add_dmm", ["C", 100, -0.5], "dmm_0")]),
    (GLp + [("config_dmm", "m2", "dmm_0"), ("config_dmm", "m1", "dmm_0")],
     [("add_dmm", ["C", 52, -1.5], "dmm_0_1"), ("add_dmm", ["C", 100, -0.5], "dmm_0"), ("add", A.C52, "g")]),
    (GLp + [("config_dmm", "m2", "dmm_1"), ("declare_var", "x", "int"), ("delay_v", "x", "g"), ("config_dmm", "m1", "dmm_1")],
     [("add_dmm", ["C", 52, -1.5], "dmm_1_1"), ("add_v", "x", 52, "g")]),
]


def spec_of(variant_names, prefix=None):
    s = copy.deepcopy(BASE)
    for v in variant_names:
        for k, val in VARIANTS[v].items():
            if k == "eom" and val is not None and s.get("eom") is not None:
                s["eom"] = dict(s["eom"], **val)
            else:
                s[k] = copy.deepcopy(val)
    s["name"] = "+".join(variant_names) or "base"
    s["prefix"] = PREFIX if prefix is None else prefix
    return s


def programs(tier):
    progs = [()]
    for op in ALPHA:
        progs.append((op,))
    for a, b in itertools.product(ALPHA, repeat=2):
        progs.append((a, b))
    progs += [tuple(p) for p in LONG]
    return progs


def cases(tier):
    out = []
    names = list(VARIANTS)
    pairs = [((), (v,)) for v in names] + [((v,), ()) for v in names]
    if tier == "thorough":
        pairs += [((), (a, b)) for a, b in itertools.combinations(names, 2)]
    else:
        pairs += [((), (a, b)) for a, b in zip(names, names[3:] + names[:3])]
    progs = programs(tier)
    for src, dst in pairs:
        for pi in range(len(progs)):
            for strict in (True, False):
                out.append(("dev", src, dst, pi, strict))
    for pi in range(len(progs)):
        for kind in ("equal", "moved", "reordered", "mappable"):
            out.append(("reg", pi, kind))
    # the device's maximum sequence duration swept through the last nanoseconds of each program AS IT PLAYS ON THE NEW DEVICE (automatic
    # waits are re-rounded there): a non-strict switch raises or returns a sequence inside the limit
    for v in ("min_dur=32", "clock=8", "pjt=42", "fixed_rt=10", "eom-buffer=40"):
        for pi in range(len(progs)):
            if len(progs[pi]) >= 2:
                out.append(("maxseq", v, pi))
    for ai in range(len(AUX)):
        for v in names:
            for strict in (True, False):
                out.append(("dev", (), (v,), -1 - ai, strict))
        for kind in ("equal", "moved", "reordered", "mappable"):
            out.append(("reg", -1 - ai, kind))
    return out


def tiling_problems(ch, co):
    out = []
    for i, s in enumerate(ch.slots):
        if i == 0:
            continue
        prev = ch.slots[i - 1]
        if s.ti != prev.tf or s.tf < s.ti:
            out.append(f"gap/overlap {prev.brief()} {s.brief()}")
        if s.ti % co.clock_period or s.tf % co.clock_period:
            out.append(f"not clock aligned {s.brief()}")
        if s.kind == "pulse" and s.tf - s.ti != len(s.pulse.amp):
            out.append(f"pulse length {s.brief()}")
        if s.kind == "delay" and s.tf - s.ti < co.min_duration:
            out.append(f"short delay {s.brief()}")
    return out


_PROGS = {}


def run_case(case):
    with warnings.catch_warnings():
        warnings.simplefilter("ignore")
        if "p" not in _PROGS:
            _PROGS["p"] = programs("quick")
        progs = _PROGS["p"]
        if case[0] == "maxseq":
            _, v, pi = case
            ops = progs[pi]
            ws = World(spec_of(()))
            try:
                seq = ws.fresh()
                for op in ops:
                    apply(seq, op, ws)
                T = seq.switch_device(World(spec_of((v,))).device, strict=False).get_duration()
            except Exception:
                return [("@program-invalid-on-source", "")]
            out = []
            for m in range(max(T - 14, 1), T + 3):
                sp = spec_of((v,))
                sp["max_seq"] = m
                try:
                    new = seq.switch_device(World(sp).device, strict=False)
                except Exception:
                    if m >= T:
                        out.append((f"C18:non-strict-switch-refused-although-the-program-fits:{v}", f"program {pi}: lasts {T} on the new device, refused with max_sequence_duration {m}"))
                    continue
                ends = max((sl.tf for c in snapshot.snap(new, False).channels.values() for sl in c.slots), default=0)
                if ends > m:
                    out.append((f"C18:non-strict-switch-over-max-duration:swept:{v}", f"program {pi}: returned a sequence lasting {ends} ns on a device whose max_sequence_duration is {m}"))
            return out + [("@maxseq-swept", "")]
        if case[0] == "dev":
            _, src, dst, pi, strict = case
            prefix, ops = (None, progs[pi]) if pi >= 0 else AUX[-1 - pi]
            ws, wd = World(spec_of(src, prefix)), World(spec_of(dst, prefix))
            try:
                seq = ws.fresh()
                for op in ops:
                    apply(seq, op, ws)
            except Exception:
                return [("@program-invalid-on-source", "")]
            s0 = snapshot.snap(seq, True)
            k0 = s0.key(with_calls=True)
            try:
                new = seq.switch_device(wd.device, strict=strict)
            except Exception as e:
                if snapshot.snap(seq, True).key(with_calls=True) != k0:
                    return [("C18:failed-switch-changed-the-original", f"{case}")]
                if dst == ("renamed",) and not src:
                    # every channel has an identical match: "replays the same instructions on matching channels"
                    return [(f"C18:switch-to-identical-device-raises:{type(e).__name__}", f"program {pi}: {e!r}"[:250])]
                return [("@refused:" + ("strict" if strict else "loose"), "")]
            out = []
            if snapshot.snap(seq, True).key(with_calls=True) != k0:
                out.append(("C18:switch-changed-the-original", f"{src}->{dst} program {pi}"))
            s1 = snapshot.snap(new, False)
            diffkey = "+".join(dst) if dst else "from:" + "+".join(src)
            if strict:
                s0n = snapshot.snap(seq, False)
                _strict_norm(s0n)
                _strict_norm(s1)
                if s0n.key(ordered_channels=False) != s1.key(ordered_channels=False):
                    d = _diff(s0n, s1)
                    if d and d.startswith("flag:"):
                        flags = set(d[5:].split(",")) - {"maxdur", "slm_dmm"}  # slm_dmm: derived DMM name, see above
                        if not flags:
                            d = None
                    if d:
                        out.append((f"C18:strict-switch-changed-the-sequence:{diffkey}:{d}",
                                    f"program {pi} {ops}: {d}"[:300]))
                if seq.is_parametrized():
                    out += _built_differs(seq, new, diffkey, pi)
                return out + [("@strict-returned", "")]
            # non-strict: every limit of the new device, and a well-formed timeline
            for name, ch in s1.channels.items():
                co = new._schedule[name].channel_obj
                p = dict(max_amp=co.max_amp, max_det=co.max_abs_detuning, clock=co.clock_period, min_dur=co.min_duration,
                         max_dur=co.max_duration, min_avg_amp=co.min_avg_amp)
                dmm = None
                if ch.is_dmm:
                    dmm = (co.bottom_detuning, co.total_bottom_detuning, list(ch.detmap[1]))
                    p = dict(p, max_amp=None, max_det=None)
                for s in ch.slots:
                    if s.kind == "pulse":
                        pp = dict(p, min_avg_amp=0) if (s.pulse.detuned_delay or s.in_eom) else p
                        v, why = inside(s.pulse.amp, s.pulse.det, s.tf - s.ti, pp, dmm)
                        if v is False:
                            out.append((f"C18:non-strict-switch-violates-new-device:{why}:{diffkey}", f"program {pi}: {name} {s.brief()}"))
                mt = getattr(co, "max_targets", None)
                if mt is not None and co.addressing == "Local":
                    for s in ch.slots:
                        if len(s.targets) > mt:
                            out.append((f"C18:non-strict-switch-violates-new-device:max-targets:{diffkey}", f"program {pi}: {name} {s.brief()} addresses {len(s.targets)} atoms, the channel allows {mt}"))
                            break
                for prob in tiling_problems(ch, co):
                    out.append((f"C18:non-strict-switch-malformed-timeline:{diffkey}", f"program {pi}: {name}: {prob}"))
            mx = new.device.max_sequence_duration
            if mx is not None and not new.is_parametrized() and new.get_duration() > mx:
                out.append((f"C18:non-strict-switch-over-max-duration:{diffkey}", f"program {pi}: {new.get_duration()} > {mx}"))
            if dst == ("renamed",) and not src:
                # identical device: nothing may change, strict or not
                s0n = snapshot.snap(seq, False)
                for sx in (s0n, s1):
                    sx.flags["slm_dmm"] = sx.flags["maxdur"] = None
                    for c in sx.channels.values():
                        if c.is_dmm:
                            c.name = c.ch_id = "dmm"
                if s0n.key(ordered_channels=False) != s1.key(ordered_channels=False):
                    out.append((f"C18:switch-to-identical-device-changed-the-sequence:{_diff(s0n, s1)}", f"program {pi}"))
                if seq.is_parametrized():
                    out += _built_differs(seq, new, "renamed", pi)
            return out + [("@loose-returned", "")]
        # switch_register
        _, pi, kind = case
        from pulser import Register

        prefix, ops = (None, progs[pi]) if pi >= 0 else AUX[-1 - pi]
        w = World(spec_of((), prefix))
        try:
            seq = w.fresh()
            for op in ops:
                apply(seq, op, w)
        except Exception:
            return [("@program-invalid-on-source", "")]
        coords = {"q0": (0.0, 0.0), "q1": (8.0, 0.0), "q2": (3.0, 9.0)}
        if kind == "mappable":
            return switch_to_mappable(seq, w, coords, pi, ops)
        if kind == "moved":
            coords = {k: (v[0] + 1.0, v[1] * 2 + 5.0) for k, v in coords.items()}
        elif kind == "reordered":
            coords = {k: coords[k] for k in ("q2", "q0", "q1")}
        s0 = snapshot.snap(seq, False)
        try:
            new = seq.switch_register(Register(coords))
        except Exception as e:
            return [(f"C18:switch-register-raises:{kind}:{type(e).__name__}", f"program {pi}: {e}"[:200])]
        s1 = snapshot.snap(new, False)
        if kind == "moved":
            for c in list(s0.channels.values()) + list(s1.channels.values()):
                if c.is_dmm:
                    c.detmap = None  # the detuning map keeps its trap coordinates by design (a warning says so)
        if kind == "reordered":
            s0.flags["qids"] = s1.flags["qids"] = ()
        if s0.key() != s1.key():
            return [(f"C18:switch-register-changed-the-sequence:{kind}:{_diff(s0, s1)}", f"program {pi} {ops}"[:250])]
        return [("@register-switched", "")]


def _strict_norm(sx):
    """Weakest reading of 'identical timeline': idle time may be partitioned differently into consecutive delays / consecutive
    idle periods at one off-detuning, DMM channel names are derived (not user-chosen), and where inside such an idle period an
    EOM block formally starts is not observable (drift corrections count from the start of the buffer, not of the block)."""
    sx.flags["slm_dmm"] = sx.flags["maxdur"] = None
    # phase references: the current value (what the next pulse will get); earlier values are in the phases of the scheduled pulses
    for basis, d in sx.basis_ref.items():
        sx.basis_ref[basis] = {q: (v[0][-1:], v[1][-1:], v[2]) for q, v in d.items()}
    for c in sx.channels.values():
        if c.is_dmm:
            c.name = c.ch_id = "dmm"
        merged = []
        for sl in c.slots:
            if merged and sl.kind == "delay" and merged[-1].kind == "delay" and merged[-1].tf == sl.ti:
                merged[-1] = snapshot.Slot("delay", merged[-1].ti, sl.tf, sl.targets)
            elif (merged and sl.kind == "pulse" and sl.pulse.detuned_delay and merged[-1].kind == "pulse"
                  and merged[-1].pulse.detuned_delay and merged[-1].tf == sl.ti and merged[-1].targets == sl.targets
                  and abs(merged[-1].pulse.det[0] - sl.pulse.det[0]) < 1e-12 and abs(merged[-1].pulse.phase - sl.pulse.phase) < 1e-12):
                a = merged[-1]
                pi_ = snapshot.PulseInfo(np.zeros(sl.tf - a.ti), np.full(sl.tf - a.ti, sl.pulse.det[0]), sl.pulse.phase, sl.pulse.post,
                                         True, sl.pulse.amp_cls, sl.pulse.det_cls)
                merged[-1] = snapshot.Slot("pulse", a.ti, sl.tf, sl.targets, pi_, a.in_eom)
            else:
                merged.append(sl)
        c.slots = merged
        for sl in c.slots:
            sl.in_eom = False
        c.eom_blocks = [(b[0], b[1], b[2], None, b[4] is None, b[5]) for b in c.eom_blocks]


def _built_differs(seq, new, diffkey, pi):
    """Parametrized program: both sequences built with the same values must have the same timeline (DMM names normalised)."""
    vals = {n: [60] * v.size for n, v in seq.declared_variables.items()}
    try:
        b0 = seq.build(**vals)
    except Exception:
        return []
    try:
        b1 = new.build(**vals)
    except Exception as e:
        return [(f"C18:switched-sequence-does-not-build:{diffkey}:{type(e).__name__}", f"program {pi}: {e}"[:250])]
    k0, k1 = snapshot.snap(b0, False), snapshot.snap(b1, False)
    for sx in (k0, k1):
        sx.flags["slm_dmm"] = sx.flags["maxdur"] = None
        for c in sx.channels.values():
            if c.is_dmm:
                c.name = c.ch_id = "dmm"
    if k0.key(ordered_channels=False) != k1.key(ordered_channels=False):
        return [(f"C18:strict-switch-changed-the-built-sequence:{diffkey}:{_diff(k0, k1)}", f"program {pi}")]
    return []


def switch_to_mappable(seq, w, coords, pi, ops):
    """switch_register to a MappableRegister with the same qubit ids: either refused, or every stored instruction is kept
    and building with the traps at the original positions gives the original timeline."""
    from pulser.register.mappable_reg import MappableRegister
    from pulser.register.register_layout import RegisterLayout

    L = RegisterLayout(list(coords.values()) + [(20.0, 20.0), (-8.0, 4.0)], slug="C18L")
    ids = L.get_traps_from_coordinates(*coords.values())
    s0 = snapshot.snap(seq, True)
    try:
        new = seq.switch_register(MappableRegister(L, *coords))
    except Exception as e:
        return [("@register-switch-refused:mappable", "")]
    n0 = [c[0] for c in s0.calls + s0.to_build]
    s1 = snapshot.snap(new, True)
    n1 = [c[0] for c in s1.calls + s1.to_build]
    if n0 != n1:
        return [("C18:switch-register-dropped-instructions:mappable", f"program {pi}: {n0} -> {n1}"[:300])]
    vals = {n: [60] * v.size for n, v in seq.declared_variables.items()}
    try:
        b0 = seq.build(**vals)
    except Exception:
        return [("@register-switched", "")]
    try:
        b1 = new.build(qubits=dict(zip(coords, ids)), **vals)
    except Exception as e:
        return [(f"C18:switched-sequence-does-not-build:mappable:{type(e).__name__}", f"program {pi}: {e}"[:250])]
    k0, k1 = snapshot.snap(b0, False), snapshot.snap(b1, False)
    for c in list(k0.channels.values()) + list(k1.channels.values()):
        if c.is_dmm:
            c.detmap = None
    if k0.key() != k1.key():
        return [(f"C18:switch-register-changed-the-sequence:mappable:{_diff(k0, k1)}", f"program {pi} {ops}"[:250])]
    return [("@register-switched", "")]


def run(tier, seed):
    res = Result("exploration")
    # vacuity guard: every auxiliary program must be valid on the base device (a typo would silently drop it from the plan)
    for ai, (prefix, ops) in enumerate(AUX):
        w = World(spec_of((), prefix))
        try:
            seq = w.fresh()
            for op in ops:
                apply(seq, op, w)
        except Exception as e:
            from mc.evidence import HarnessError

            raise HarnessError(f"C18 auxiliary program {ai} is not valid on the base device: {type(e).__name__}: {e}")
    cs = cases(tier)
    outs = gridx.run(run_case, cs)
    classes = {}
    for c, r in zip(cs, outs):
        for fp, d in r:
            if fp.startswith("@"):
                classes[fp] = classes.get(fp, 0) + 1
            else:
                res.add(Violation(fp, d, {"engine": "progx", "case": [list(x) if isinstance(x, tuple) else x for x in c]}))
    returned = classes.get("@strict-returned", 0) + classes.get("@loose-returned", 0) + classes.get("@register-switched", 0) + classes.get("@maxseq-swept", 0)
    res.coverage = dict(
        evaluations=len(cs), distinct_nontrivial=returned, exhaustive=True, outcome_classes=classes,
        rule="programs = every history of <= 2 ops over a 12-op alphabet (pulses with phase changes, all protocols, fall-time delay, "
             "retarget, align, EOM enable/pulse/disable with drift correction, DMM, phase shift) plus 3 long ones, on a device with "
             "global+local+DMM channels; device pairs = base <-> each of 25 single-parameter variants (clock, min duration, bandwidth, "
             "phase-jump time incl. value equal to the derived one, retarget interval, fixed retarget time, EOM bandwidth / buffer / "
             "beams / absence, limits, reusability, Rydberg level, max sequence duration, DMM bottoms) and base -> two-parameter "
             "variants, both strict and non-strict; switch_register to an equal, a moved and a re-ordered register; non-trivial = "
             "switches that returned a sequence and were compared",
        samples=[str(cs[i]) for i in (0, len(cs) // 2, len(cs) - 1)])
    res.assumptions = ["strict: compared on timeline, EOM blocks, phase references and flags with channels keyed by name",
                       "non-strict: judged with the C01 limit predicate and the C02 tiling rules on the new device"]
    return res


def replay(payload):
    c = payload["case"]
    case = tuple(tuple(x) if isinstance(x, list) else x for x in c)
    return [Violation(fp, d, payload) for fp, d in run_case(case) if not fp.startswith("@")]
