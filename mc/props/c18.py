"""C18 — switching device or register preserves the program.
ProgX: programs (all histories up to depth 2 over a compact alphabet + long ones, parametrized variants) x ordered
pairs of devices differing in one (thorough: two) channel/device parameters x strict in {True, False}."""
from __future__ import annotations

import copy
import itertools
import warnings

import numpy as np

from mc import alphabets as A
from mc import gridx, snapshot
from mc.evidence import Result, Violation
from mc.props.c01 import inside
from mc.props.c09 import _diff
from mc.worlds import World, apply, corner

BASE = dict(name="base", clock=4, min_dur=16, bw=8, pjt=None, retarget=220, fixed_rt=0, eom={}, qubits=3, reusable=True,
            max_amp=10.0, max_det=60.0, max_dur=2000, bottom_det=-30.0, total_bottom_det=-60.0)

VARIANTS = {
    "clock=2": dict(clock=2),
    "clock=8": dict(clock=8),
    "min_dur=8": dict(min_dur=8),
    "min_dur=32": dict(min_dur=32),
    "bw=4": dict(bw=4),
    "bw=30": dict(bw=30),
    "pjt=0": dict(pjt=0),
    "pjt=42": dict(pjt=42),
    "pjt=120": dict(pjt=120),  # equal to the derived value 2*rise_time for 8 MHz
    "retarget=0": dict(retarget=0),
    "retarget=100": dict(retarget=100),
    "fixed_rt=32": dict(fixed_rt=32),
    "fixed_rt=220": dict(fixed_rt=220),
    "eom-bw=20": dict(eom=dict(mod_bandwidth=20)),
    "eom-buffer=40": dict(eom=dict(custom_buffer_time=40)),
    "eom-buffer=240": dict(eom=dict(custom_buffer_time=240)),  # equal to the derived 2*rise_time
    "eom-beams=RB": dict(eom=dict(controlled_beams=["BLUE", "RED"])),
    "eom-none": dict(eom=None),
    "max_amp=1.2": dict(max_amp=1.2),
    "max_det=0.4": dict(max_det=0.4),
    "max_dur=60": dict(max_dur=60),
    "non-reusable": dict(reusable=False),
    "rydberg_level=70": dict(rydberg_level=70),
    "max_seq=300": dict(max_seq=300),
    "bottom=-1": dict(bottom_det=-1.0, total_bottom_det=-2.0),
}

ALPHA = [
    ("add", A.C52, "g"),
    ("add", A.C52P, "g"),
    ("add", A.B100, "l", "wait-for-all"),
    ("add", ["c", 50, 1.0, 0.5, 1.0], "l", "no-delay"),
    ("delay", 100, "g", True),
    ("target", "q1", "l"),
    ("align", ("g", "l"), True),
    ("enable_eom", "g", 2.0, 0.5, -10.0, True),
    ("eom_pulse", "g", 52, PI2 := A.PI2, 0.0, "min-delay", True),
    ("disable_eom", "g", False),
    ("add_dmm", ["C", 52, -1.5], "dmm_0"),
    ("phase_shift", 1.0, ("q0",), "digital"),
]
LONG = [
    [("add", A.C52, "l"), ("target", "q1", "l"), ("add", A.C52P, "l"), ("target", "q2", "l"), ("add", A.C52, "l")],
    [("enable_eom", "g", 2.0, 0.5, -10.0, False), ("eom_pulse", "g", 52, 0.0, 0.0, "min-delay", False), ("delay", 52, "g"),
     ("eom_pulse", "g", 50, A.PI2, 0.0, "min-delay", True), ("disable_eom", "g", True), ("add", A.C52, "g")],
    [("add", A.C52, "g"), ("add", A.C52P, "g"), ("add", A.C52, "g"), ("align", ("g", "l"), False), ("add", A.B100, "l")],
    # an automatically inserted delay shorter than a larger minimum duration (phase-jump buffer of 20 ns left)
    [("add", A.C52, "g"), ("delay", 220, "g"), ("add", A.C52P, "g")],
]
PREFIX = [("declare", "g", "rydberg_global"), ("declare", "l", "raman_local", "q0"), ("config_dmm", "m2", "dmm_0")]


def spec_of(variant_names):
    s = copy.deepcopy(BASE)
    for v in variant_names:
        for k, val in VARIANTS[v].items():
            if k == "eom" and val is not None and s.get("eom") is not None:
                s["eom"] = dict(s["eom"], **val)
            else:
                s[k] = copy.deepcopy(val)
    s["name"] = "+".join(variant_names) or "base"
    s["prefix"] = PREFIX
    return s


def programs(tier):
    progs = [()]
    for op in ALPHA:
        progs.append((op,))
    for a, b in itertools.product(ALPHA, repeat=2):
        progs.append((a, b))
    progs += [tuple(p) for p in LONG]
    return progs


def cases(tier):
    out = []
    names = list(VARIANTS)
    pairs = [((), (v,)) for v in names] + [((v,), ()) for v in names]
    if tier == "thorough":
        pairs += [((), (a, b)) for a, b in itertools.combinations(names, 2)]
    else:
        pairs += [((), (a, b)) for a, b in zip(names, names[3:] + names[:3])]
    progs = programs(tier)
    for src, dst in pairs:
        for pi in range(len(progs)):
            for strict in (True, False):
                out.append(("dev", src, dst, pi, strict))
    for pi in range(len(progs)):
        for kind in ("equal", "moved", "reordered"):
            out.append(("reg", pi, kind))
    return out


def tiling_problems(ch, co):
    out = []
    for i, s in enumerate(ch.slots):
        if i == 0:
            continue
        prev = ch.slots[i - 1]
        if s.ti != prev.tf or s.tf < s.ti:
            out.append(f"gap/overlap {prev.brief()} {s.brief()}")
        if s.ti % co.clock_period or s.tf % co.clock_period:
            out.append(f"not clock aligned {s.brief()}")
        if s.kind == "pulse" and s.tf - s.ti != len(s.pulse.amp):
            out.append(f"pulse length {s.brief()}")
        if s.kind == "delay" and s.tf - s.ti < co.min_duration:
            out.append(f"short delay {s.brief()}")
    return out


_PROGS = {}


def run_case(case):
    with warnings.catch_warnings():
        warnings.simplefilter("ignore")
        if "p" not in _PROGS:
            _PROGS["p"] = programs("quick")
        progs = _PROGS["p"]
        if case[0] == "dev":
            _, src, dst, pi, strict = case
            ws, wd = World(spec_of(src)), World(spec_of(dst))
            seq = ws.fresh()
            try:
                for op in progs[pi]:
                    apply(seq, op, ws)
            except Exception:
                return [("@program-invalid-on-source", "")]
            s0 = snapshot.snap(seq, True)
            k0 = s0.key(with_calls=True)
            try:
                new = seq.switch_device(wd.device, strict=strict)
            except Exception as e:
                if snapshot.snap(seq, True).key(with_calls=True) != k0:
                    return [("C18:failed-switch-changed-the-original", f"{case}")]
                return [("@refused:" + ("strict" if strict else "loose"), "")]
            out = []
            if snapshot.snap(seq, True).key(with_calls=True) != k0:
                out.append(("C18:switch-changed-the-original", f"{src}->{dst} program {pi}"))
            s1 = snapshot.snap(new, False)
            diffkey = "+".join(dst) if dst else "from:" + "+".join(src)
            if strict:
                s0n = snapshot.snap(seq, False)
                for sx in (s0n, s1):  # idle time may be partitioned differently into consecutive delays (weakest reading)
                    for c in sx.channels.values():
                        merged = []
                        for sl in c.slots:
                            if merged and sl.kind == "delay" and merged[-1].kind == "delay" and merged[-1].tf == sl.ti:
                                merged[-1] = snapshot.Slot("delay", merged[-1].ti, sl.tf, sl.targets)
                            else:
                                merged.append(sl)
                        c.slots = merged
                if s0n.key(ordered_channels=False) != s1.key(ordered_channels=False):
                    d = _diff(s0n, s1)
                    if d and d.startswith("flag:"):
                        flags = set(d[5:].split(",")) - {"maxdur"}
                        if not flags:
                            d = None
                    if d:
                        out.append((f"C18:strict-switch-changed-the-sequence:{diffkey}:{d}",
                                    f"program {pi} {progs[pi]}: duration {seq.get_duration()} -> {new.get_duration()}"[:300]))
                return out + [("@strict-returned", "")]
            # non-strict: every limit of the new device, and a well-formed timeline
            for name, ch in s1.channels.items():
                co = new._schedule[name].channel_obj
                p = dict(max_amp=co.max_amp, max_det=co.max_abs_detuning, clock=co.clock_period, min_dur=co.min_duration,
                         max_dur=co.max_duration, min_avg_amp=co.min_avg_amp)
                dmm = None
                if ch.is_dmm:
                    dmm = (co.bottom_detuning, co.total_bottom_detuning, list(ch.detmap[1]))
                    p = dict(p, max_amp=None, max_det=None)
                for s in ch.slots:
                    if s.kind == "pulse":
                        pp = dict(p, min_avg_amp=0) if (s.pulse.detuned_delay or s.in_eom) else p
                        v, why = inside(s.pulse.amp, s.pulse.det, s.tf - s.ti, pp, dmm)
                        if v is False:
                            out.append((f"C18:non-strict-switch-violates-new-device:{why}:{diffkey}", f"program {pi}: {name} {s.brief()}"))
                for prob in tiling_problems(ch, co):
                    out.append((f"C18:non-strict-switch-malformed-timeline:{diffkey}", f"program {pi}: {name}: {prob}"))
            mx = new.device.max_sequence_duration
            if mx is not None and new.get_duration() > mx:
                out.append((f"C18:non-strict-switch-over-max-duration:{diffkey}", f"program {pi}: {new.get_duration()} > {mx}"))
            return out + [("@loose-returned", "")]
        # switch_register
        _, pi, kind = case
        from pulser import Register

        w = World(spec_of(()))
        seq = w.fresh()
        try:
            for op in progs[pi]:
                apply(seq, op, w)
        except Exception:
            return [("@program-invalid-on-source", "")]
        coords = {"q0": (0.0, 0.0), "q1": (8.0, 0.0), "q2": (3.0, 9.0)}
        if kind == "moved":
            coords = {k: (v[0] + 1.0, v[1] * 2 + 5.0) for k, v in coords.items()}
        elif kind == "reordered":
            coords = {k: coords[k] for k in ("q2", "q0", "q1")}
        s0 = snapshot.snap(seq, False)
        try:
            new = seq.switch_register(Register(coords))
        except Exception as e:
            return [(f"C18:switch-register-raises:{kind}:{type(e).__name__}", f"program {pi}: {e}"[:200])]
        s1 = snapshot.snap(new, False)
        if kind == "moved":
            for c in list(s0.channels.values()) + list(s1.channels.values()):
                if c.is_dmm:
                    c.detmap = None  # the detuning map keeps its trap coordinates by design (a warning says so)
        if kind == "reordered":
            s0.flags["qids"] = s1.flags["qids"] = ()
        if s0.key() != s1.key():
            return [(f"C18:switch-register-changed-the-sequence:{kind}:{_diff(s0, s1)}", f"program {pi} {progs[pi]}"[:250])]
        return [("@register-switched", "")]


def run(tier, seed):
    res = Result("exploration")
    cs = cases(tier)
    outs = gridx.run(run_case, cs)
    classes = {}
    for c, r in zip(cs, outs):
        for fp, d in r:
            if fp.startswith("@"):
                classes[fp] = classes.get(fp, 0) + 1
            else:
                res.add(Violation(fp, d, {"engine": "progx", "case": [list(x) if isinstance(x, tuple) else x for x in c]}))
    returned = classes.get("@strict-returned", 0) + classes.get("@loose-returned", 0) + classes.get("@register-switched", 0)
    res.coverage = dict(
        evaluations=len(cs), distinct_nontrivial=returned, exhaustive=True, outcome_classes=classes,
        rule="programs = every history of <= 2 ops over a 12-op alphabet (pulses with phase changes, all protocols, fall-time delay, "
             "retarget, align, EOM enable/pulse/disable with drift correction, DMM, phase shift) plus 3 long ones, on a device with "
             "global+local+DMM channels; device pairs = base <-> each of 25 single-parameter variants (clock, min duration, bandwidth, "
             "phase-jump time incl. value equal to the derived one, retarget interval, fixed retarget time, EOM bandwidth / buffer / "
             "beams / absence, limits, reusability, Rydberg level, max sequence duration, DMM bottoms) and base -> two-parameter "
             "variants, both strict and non-strict; switch_register to an equal, a moved and a re-ordered register; non-trivial = "
             "switches that returned a sequence and were compared",
        samples=[str(cs[i]) for i in (0, len(cs) // 2, len(cs) - 1)])
    res.assumptions = ["strict: compared on timeline, EOM blocks, phase references and flags with channels keyed by name",
                       "non-strict: judged with the C01 limit predicate and the C02 tiling rules on the new device"]
    return res


def replay(payload):
    c = payload["case"]
    case = tuple(tuple(x) if isinstance(x, list) else x for x in c)
    return [Violation(fp, d, payload) for fp, d in run_case(case) if not fp.startswith("@")]
