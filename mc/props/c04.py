"""C04 — sequence serialisation round-trips and is schema-valid.
ProgX: programs (every building operation, argument styles as deviations, parametrized variants) x registers x
devices through both codecs; differential oracle on canonical snapshots."""
from __future__ import annotations

import itertools
import json
import warnings

import numpy as np

from mc import gridx, snapshot
from mc.evidence import Result, Violation
from mc.props import c08
from mc.props.c09 import _diff
from mc.worlds import World, corner

WSPEC = corner("real", name="c04", qubits=3, clock=4, min_dur=16)

# qubit naming of the current case: "str" -> q0,q1,q2; "int" -> 0,1,2; "intperm" -> 2,0,1 (the first atom is called 2);
# "strnum" -> "0","1","2" (what the abstract representation turns integer ids into)
IDKINDS = {
    "str": ("q0", "q1", "q2"),
    "int": (0, 1, 2),
    "intperm": (2, 0, 1),
    "strnum": ("0", "1", "2"),
    "strnumperm": ("2", "0", "1"),
}
_IDS = {"kind": "str"}


def Q(i):
    return IDKINDS[_IDS["kind"]][i]


# ---- programs with argument-style deviations: St(i) says whether deviation i is active ----------------
def pg_styles(seq, V, St, w):
    """Every building op with optional arguments given positionally / by keyword / omitted / explicit default."""
    from pulser import Pulse

    if St(0):
        seq.declare_channel("g", "rydberg_global", initial_target=None)
    else:
        seq.declare_channel("g", "rydberg_global")
    if St(1):
        seq.declare_channel("l", "raman_local", Q(1))
    else:
        seq.declare_channel(name="l", channel_id="raman_local", initial_target=Q(1))
    p = Pulse.ConstantPulse(V(0, 52, True), V(1, 1.0), 0.0, V(2, 0.5), post_phase_shift=V(3, 0.25))
    if St(2):
        seq.add(p, "g", "min-delay")
    elif St(3):
        seq.add(pulse=p, channel="g", protocol="no-delay")
    else:
        seq.add(p, "g")
    if St(4):
        seq.delay(V(4, 100, True), "l", at_rest=True)
    elif St(5):
        seq.delay(duration=V(4, 100, True), channel="l", at_rest=False)
    else:
        seq.delay(V(4, 100, True), "l")
    if St(6):
        seq.target([Q(0), Q(2)], "l")
    elif St(7):
        seq.target(qubits=Q(0), channel="l")
    else:
        seq.target(Q(0), "l")
    seq.add(Pulse.ConstantPulse(64, 2.0, V(5, -1.0), 0.0), "l", protocol="wait-for-all")
    if St(8):
        seq.align("g", "l", at_rest=True)
    elif St(9):
        seq.align("g", "l", at_rest=False)
    else:
        seq.align("g", "l")
    if St(10):
        seq.phase_shift(V(6, 1.0), Q(0), basis="ground-rydberg")
    elif St(11):
        seq.phase_shift(V(6, 1.0), Q(0), Q(1))  # default basis
    elif St(12):
        seq.phase_shift(phi=V(6, 1.0), basis="digital")  # keyword phi, all qubits
    else:
        seq.phase_shift(V(6, 1.0), Q(0), Q(2), basis="digital")
    seq.add(Pulse.ConstantPulse(52, 1.0, 0.0, V(7, 0.0)), "g")
    if St(15):
        seq.delay(0, "g", at_rest=True)  # zero-length delay that still waits for the fall time
        seq.add(Pulse.ConstantPulse(52, 1.0, 0.0, 0.0), "g", "no-delay")
    if St(13):
        seq.measure()
    elif St(14):
        seq.measure(basis="digital")


def pg_eom(seq, V, St, w):
    seq.declare_channel("g", "rydberg_global")
    if St(0):
        seq.enable_eom_mode("g", V(0, 2.0), V(1, 0.5))
    elif St(1):
        seq.enable_eom_mode(channel="g", amp_on=V(0, 2.0), detuning_on=V(1, 0.5), optimal_detuning_off=V(2, -10.0), correct_phase_drift=True)
    else:
        seq.enable_eom_mode("g", V(0, 2.0), V(1, 0.5), V(2, -10.0), False)
    if St(2):
        seq.add_eom_pulse("g", V(3, 100, True), V(4, 0.3))
    elif St(3):
        seq.add_eom_pulse(channel="g", duration=V(3, 100, True), phase=V(4, 0.3), post_phase_shift=V(5, 0.1), protocol="no-delay", correct_phase_drift=True)
    else:
        seq.add_eom_pulse("g", V(3, 100, True), V(4, 0.3), V(5, 0.1), "wait-for-all", False)
    seq.delay(48, "g")
    if St(8):
        seq.delay(0, "g", at_rest=True)
    if St(4):
        seq.modify_eom_setpoint("g", V(6, 1.0), 0.0)
    else:
        seq.modify_eom_setpoint("g", V(6, 1.0), 0.0, optimal_detuning_off=5.0, correct_phase_drift=True)
    seq.add_eom_pulse("g", 60, 1.2, correct_phase_drift=St(5))
    if St(6):
        seq.disable_eom_mode("g")
    elif St(7):
        seq.disable_eom_mode(channel="g", correct_phase_drift=True)
    else:
        return  # sequence left in EOM mode


def _prog_detmap(seq, w, key):
    """The world's detuning map `key` defined on the PROGRAM's own register (2D or 3D; ids by position)."""
    reg = seq.get_register(include_mappable=True)
    if hasattr(reg, "qubits"):
        from pulser.register.weight_maps import DetuningMap

        ids = list(reg.qubit_ids)
        wts = {ids[i]: wt for i, (q, wt) in enumerate(w.detmaps[key].items()) if i < len(ids)}
        # the traps are handed over in DESCENDING coordinate order (a map is the same map in whatever order its traps are listed)
        items = sorted(((tuple(float(v) for v in np.asarray(reg.qubits[q].as_array(detach=True) if hasattr(reg.qubits[q], "as_array") else reg.qubits[q])), wt)
                        for q, wt in wts.items()), reverse=True)
        return DetuningMap([list(c) for c, _ in items], [wt for _, wt in items])
    return w.detmap(key)


def pg_dmm_slm(seq, V, St, w):
    from pulser import Pulse
    from pulser.waveforms import ConstantWaveform, RampWaveform

    if St(0):
        seq.config_slm_mask([Q(0)])  # before the first channel
    if St(1):
        seq.config_detuning_map(_prog_detmap(seq, w, "m2"), "dmm_1")  # DMM before the first channel
    seq.declare_channel("g", "rydberg_global")
    if St(2):
        seq.config_detuning_map(detuning_map=_prog_detmap(seq, w, "m1"), dmm_id="dmm_1")
    seq.add(Pulse.ConstantPulse(V(0, 100, True), V(1, 1.0), 0.0, 0.0), "g")
    slm_dmm = "dmm_1" if (St(8) and not (St(1) or St(2))) else "dmm_0"  # the mask on the device's SECOND DMM
    if St(3) and not St(0):
        if St(8):
            seq.config_slm_mask([Q(1), Q(2)], slm_dmm)  # after a pulse; positional (the decoder re-issues the call with keywords)
        else:
            seq.config_slm_mask(qubits=[Q(1), Q(2)], dmm_id=slm_dmm)  # after a pulse; by keyword
    if St(1) or St(2):
        if St(4):
            seq.add_dmm_detuning(ConstantWaveform(V(2, 100, True), V(3, -2.0)), "dmm_1")
        else:
            seq.add_dmm_detuning(waveform=RampWaveform(60, V(3, -2.0), 0.0), dmm_name="dmm_1", protocol="min-delay")
    if St(7) and St(3) and not St(0):
        seq.add_dmm_detuning(ConstantWaveform(100, -1.0), slm_dmm)  # more detuning on the DMM that carries the SLM mask
    if St(5):
        seq.declare_channel("r", "rydberg_local", [Q(0), Q(1)])  # declared late, multi target
        seq.add(Pulse.ConstantPulse(52, 1.0, 0.0, 0.0), "r", "no-delay")
    if St(6):
        seq.measure("ground-rydberg")


def pg_xy(seq, V, St, w):
    from pulser import Pulse

    if St(0):
        seq.set_magnetic_field(1.0, 2.0, 2.0)
    elif St(1):
        seq.set_magnetic_field(bz=10.0)
    if St(2):
        seq.config_slm_mask([Q(0), Q(2)])
    seq.declare_channel("m", "mw_global")
    seq.add(Pulse.ConstantPulse(V(0, 100, True), V(1, 1.0), V(2, 0.0), V(3, 0.0)), "m")
    if St(3):
        seq.config_slm_mask([Q(1)]) if not St(2) else None
    seq.delay(60, "m")
    seq.add(Pulse.ConstantPulse(40, 2.0, 0.0, 1.0, post_phase_shift=V(4, -0.5)), "m")
    if St(4):
        seq.measure("XY")


def pg_arbphase(seq, V, St, w):
    from pulser import Pulse
    from pulser.waveforms import BlackmanWaveform, ConstantWaveform, CustomWaveform, InterpolatedWaveform, KaiserWaveform, RampWaveform

    seq.declare_channel("g", "rydberg_global")
    amp = BlackmanWaveform(V(0, 100, True), V(1, 0.9))
    if St(0):
        ph = RampWaveform(V(0, 100, True), 0.0, V(2, 3.0))
    elif St(1):
        ph = CustomWaveform([0.01 * i * i for i in range(100)])
        amp = BlackmanWaveform(100, V(1, 0.9))
    else:
        ph = ConstantWaveform(V(0, 100, True), V(2, 3.0))
    seq.add(Pulse.ArbitraryPhase(amp, ph, post_phase_shift=V(3, 0.0)), "g")
    if St(2):
        seq.add(Pulse.ConstantDetuning(KaiserWaveform(60, 0.4), 0.25, 0.0), "g")
    if St(3):
        seq.add(Pulse.ConstantAmplitude(1.0, InterpolatedWaveform(120, [0.0, 1.0, 0.0], times=[0.0, 0.25, 1.0]), 0.0), "g")
    if St(4):
        seq.add(Pulse.ConstantDetuning(InterpolatedWaveform(120, [0.0, 1.0, 0.5]), -1.0, 0.0), "g", "no-delay")
    if St(5):
        # optional waveform arguments at non-default values
        seq.add(Pulse.ConstantDetuning(InterpolatedWaveform(V(4, 120, True), [0.0, 1.0, 0.2, 0.8], interpolator="interp1d"), 0.0, 0.0), "g")
    if St(6):
        seq.add(Pulse.ConstantDetuning(KaiserWaveform(V(4, 120, True), V(5, 0.6), beta=V(6, 5.0)), 0.0, 0.0), "g")
    if St(7):
        # every constructor argument by keyword (waveforms and pulses)
        seq.add(Pulse.ConstantDetuning(amplitude=BlackmanWaveform(duration=V(4, 120, True), area=V(5, 0.6)), detuning=V(6, 5.0), phase=0.0), "g")
    if St(8):
        seq.add(Pulse(amplitude=ConstantWaveform(duration=V(4, 120, True), value=V(5, 0.6)),
                      detuning=RampWaveform(duration=V(4, 120, True), start=V(6, 5.0), stop=0.0), phase=0.5, post_phase_shift=0.25), channel="g")


PROGRAMS = {"styles": (pg_styles, 16), "eom": (pg_eom, 9), "dmm_slm": (pg_dmm_slm, 9), "xy": (pg_xy, 5), "arbphase": (pg_arbphase, 9)}

REGS = ["2d", "2d-layout", "3d", "3d-layout", "mappable", "mappable-3d"]  # {2D, 3D} x {plain, from a layout, mappable}
DEVS = ["virtual", "MockDevice", "custom-physical", "builtin-name-other-specs", "builtin-name-virtual"]


def make_register(kind, w):
    from pulser import Register, Register3D
    from pulser.register.mappable_reg import MappableRegister
    from pulser.register.register_layout import RegisterLayout

    c2 = {Q(0): (0.0, 0.0), Q(1): (8.0, 0.0), Q(2): (3.0, 9.0)}
    c3 = {Q(0): (0.0, 0.0, 0.0), Q(1): (8.0, 0.0, 1.0), Q(2): (3.0, 9.0, -4.0)}
    if kind == "2d":
        return Register(c2)
    if kind == "3d":
        return Register3D(c3)
    if kind in ("2d-layout", "mappable"):
        L = RegisterLayout([(3.0, 9.0), (0.0, 0.0), (8.0, 0.0), (20.0, 20.0), (-8.0, 4.0), (12.0, -7.0)], slug="L2")
        ids = L.get_traps_from_coordinates(*c2.values())
        if kind == "mappable":
            return MappableRegister(L, Q(0), Q(1), Q(2)), dict(zip(c2, ids))
        return L.define_register(*ids, qubit_ids=list(c2))
    if kind in ("3d-layout", "mappable-3d"):
        L = RegisterLayout([(3.0, 9.0, -4.0), (0.0, 0.0, 0.0), (8.0, 0.0, 1.0), (0.0, 0.0, 9.0), (5.0, 5.0, 5.0), (-5.0, 5.0, 5.0)])
        ids = L.get_traps_from_coordinates(*c3.values())
        if kind == "mappable-3d":
            return MappableRegister(L, Q(0), Q(1), Q(2)), dict(zip(c3, ids))
        return L.define_register(*ids, qubit_ids=list(c3))
    raise ValueError(kind)


def make_dev(kind, w, program=None):
    import dataclasses

    import pulser

    if kind == "custom-physical" and program == "eom":  # a physical device whose Rydberg channel has an EOM
        return dataclasses.replace(pulser.AnalogDevice, name="CustomAD", max_atom_num=60)

    if kind == "virtual":
        return w.device
    if kind == "MockDevice":
        return pulser.MockDevice
    if kind == "custom-physical":
        return dataclasses.replace(pulser.DigitalAnalogDevice, name="CustomDAD", max_atom_num=60, max_layout_filling=0.9)
    if kind == "builtin-name-other-specs":  # keeps the name of a device shipped with pulser
        return dataclasses.replace(pulser.DigitalAnalogDevice, max_atom_num=60, max_radial_distance=45)
    if kind == "builtin-name-virtual":
        return dataclasses.replace(pulser.MockDevice, max_atom_num=50, rydberg_level=60)
    raise ValueError(kind)


class Styles:
    def __init__(self, active):
        self.active = set(active)
        self.asked = set()

    def __call__(self, i):
        self.asked.add(i)
        return i in self.active


def build_program(name, active, chosen, regkind, devkind, mode, assign=None, idkind="str"):
    """Returns (seq, extra) where extra has the Vals object and the qubit mapping for mappable registers."""
    from pulser import Sequence

    _IDS["kind"] = idkind
    w = World(WSPEC)
    fn, _ = PROGRAMS[name]
    reg = make_register(regkind, w)
    mapping = None
    if isinstance(reg, tuple):
        reg, mapping = reg
    dev = make_dev(devkind, w, name)
    seq = Sequence(reg, dev)
    V = c08.Vals(mode, chosen, assign or {}, seq)
    fn(seq, V, Styles(active), w)
    return seq, V, mapping


_POS = {}


def plain_positions(name, active):
    key = (name, tuple(active))
    if key not in _POS:
        with warnings.catch_warnings():
            warnings.simplefilter("ignore")
            try:
                _, V, _ = build_program(name, active, {}, "2d", "virtual", "plain")
                _POS[key] = {p: (b, i) for p, b, i in V.positions}
            except Exception:
                _POS[key] = {}
    return _POS[key]


def cases(tier):
    out = []
    for name, (fn, nst) in PROGRAMS.items():
        subsets = [()] + [(i,) for i in range(nst)]
        if tier == "thorough":
            subsets += list(itertools.combinations(range(nst), 2))
        else:
            subsets += [(i, (i + 3) % nst) for i in range(nst) if i != (i + 3) % nst]
        for act in subsets:
            for regkind, devkind in (("2d", "virtual"), ("2d-layout", "MockDevice")):
                out.append((name, tuple(sorted(act)), (), regkind, devkind))
        # registers x devices on the plain program and on one deviation
        for regkind, devkind in itertools.product(REGS, DEVS):
            for act in ((), (0,), (nst - 1,)) + (((1,), (2, 4)) if name == "dmm_slm" else ()):  # detuning maps on every register kind
                out.append((name, act, (), regkind, devkind))
        # parametrized variants: each numeric position alone, all positions, pairs (thorough)
        npos = {"styles": 8, "eom": 7, "dmm_slm": 4, "xy": 5, "arbphase": 7}[name]
        psets = [(p,) for p in range(npos)] + [tuple(range(npos))]
        if tier == "thorough":
            psets += list(itertools.combinations(range(npos), 2))
        kinds = [e[0] for e in c08.EXPRS if e[0] not in ("round", "round-tie")]  # numpy.round is not exportable (known finding)
        for pi, ps in enumerate(psets):
            for act in ((), (1,), (nst - 2,), (nst - 1,)):
                pos = plain_positions(name, act)
                chosen = tuple((p, c08.pick(kinds, pi + p + len(act), pos[p][0], pos[p][1], p)) for p in ps if p in pos)
                if not chosen:
                    continue
                out.append((name, act, chosen, "2d", "virtual"))
                out.append((name, act, chosen, "mappable", "virtual"))
                if not act:
                    out.append((name, act, chosen, "mappable-3d", "MockDevice"))
                    out.append((name, act, chosen, "3d-layout", "virtual"))
        # parametrized (every position a variable) x every single deviation and every PAIR of deviations: calls that are merely
        # stored (keyword / positional styles, optional arguments) and consulted by the calls that follow
        allpos = tuple(range(npos))
        for act in [(i,) for i in range(nst)] + list(itertools.combinations(range(nst), 2)):
            pos = plain_positions(name, act)
            chosen = tuple((p, c08.pick(kinds, p + len(act), pos[p][0], pos[p][1], p)) for p in allpos if p in pos)
            if chosen:
                out.append((name, act, chosen, "2d", "virtual"))
        out.append((name, (), ((0, "round"),), "2d", "virtual"))
        # integer qubit ids (in and out of register order): the abstract representation stores ids as strings and
        # addresses qubits by index, so the decoded sequence must equal the same program written with str(id)
        for idk in ("int", "intperm"):
            for act in [()] + [(i,) for i in range(nst)]:
                out.append((name, act, (), "2d", "virtual", idk))
            out.append((name, (), (), "mappable", "virtual", idk))
            out.append((name, (), (), "2d-layout", "MockDevice", idk))
            pos = plain_positions(name, ())
            if 0 in pos:
                ch = ((0, c08.pick(kinds, 0, pos[0][0], pos[0][1], 0)),)
                out.append((name, (), ch, "2d", "virtual", idk))
                out.append((name, (), ch, "mappable", "virtual", idk))
    out += [("shared",) + c[1:] for c in c08.pair_cases(tier)]
    # C08's skeleton templates: every applicable expression kind at every single position (plain and mappable register)
    w8 = World(c08.WORLD)
    for name in c08.SKELETONS:
        pos = c08.positions_of(name, w8)
        for p8 in sorted(pos):
            for k8 in (e[0] for e in c08.EXPRS):
                if k8 not in ("round", "round-tie") and c08.applicable(k8, pos[p8][0], pos[p8][1], p8):
                    out.append(("c08prog", name, ((p8, k8),), False))
                    if isinstance(pos[p8][0], c08.ArrBase) or tier == "thorough" or k8 == "var":
                        out.append(("c08prog", name, ((p8, k8),), True))
    out += [("dechist", k1, k2, codec) for k1 in HIST_KINDS for k2 in HIST_KINDS for codec in ("abstract", "legacy")]
    # de-duplicate
    seen = set()
    uniq = []
    for c in out:
        if c not in seen:
            seen.add(c)
            uniq.append(c)
    return uniq


_VALIDATOR = {}


def own_validate(doc: dict):
    """Validate against the published schema with a validator compiled by the harness."""
    import os

    import jsonschema

    if "v" not in _VALIDATOR:
        repo = os.environ.get("VERIF_REPO", "/repo")
        base = os.path.join(repo, "pulser-core/pulser/json/abstract_repr/schemas")
        schemas = {}
        for fn in os.listdir(base):
            if fn.endswith(".json"):
                schemas[fn] = json.load(open(os.path.join(base, fn)))
        from referencing import Registry, Resource

        reg = Registry().with_resources([(k, Resource.from_contents(v)) for k, v in schemas.items()])
        cls = jsonschema.validators.validator_for(schemas["sequence-schema.json"])
        _VALIDATOR["v"] = cls(schemas["sequence-schema.json"], registry=reg)
    errs = sorted(_VALIDATOR["v"].iter_errors(doc), key=lambda e: list(e.path))
    return errs[0].message[:200] if errs else None


def norm(s):
    """Snapshot key for round-trip comparison: channels as a name-keyed map."""
    return s.key(ordered_channels=False)



def run_shared(what, i, j):
    """Round trip of a template whose two arguments are different expressions over the SAME operands (C08's pair programs)."""
    from pulser import Pulse, Sequence

    w = World(WSPEC)
    out = []
    with warnings.catch_warnings():
        warnings.simplefilter("ignore")
        tmpl = w.fresh(apply_prefix=False)
        a = tmpl.declare_variable("a", dtype=float)
        t = tmpl.declare_variable("t", dtype=int)
        tmpl.declare_channel("g", "rydberg_global")
        try:
            for k in (i, j):
                if what == "expr":
                    tmpl.add(Pulse.ConstantPulse(t, 1.0, c08.PAIR_EXPRS[k][1](a, 2.0), 0.0), "g")
                else:
                    tmpl.add(Pulse.ConstantDetuning(c08._pair_wf(c08.PAIR_WFS[k], t, a), 0.0, 0.0), "g")
        except Exception as e:
            return gridx.crash_finding(e, "building-a-program", f"shared {what} {i} {j}") or [("@program-not-constructible", type(e).__name__)]
        names = (c08.PAIR_EXPRS[i][0], c08.PAIR_EXPRS[j][0]) if what == "expr" else (c08.PAIR_WFS[i], c08.PAIR_WFS[j])
        for codec in ("abstract", "legacy"):
            try:
                doc = tmpl.to_abstract_repr() if codec == "abstract" else tmpl._serialize()
            except Exception as e:
                if "No abstract representation for" in str(e):
                    return [("@expression-not-exportable", str(e)[:60])]
                out.append((f"C04:encode-raises:{codec}:shared:{type(e).__name__}", f"{names}: {e}"[:200]))
                continue
            if codec == "abstract":
                err = own_validate(json.loads(doc))
                if err:
                    out.append(("C04:schema-invalid:shared", f"{names}: {err}"))
            try:
                dec = Sequence.from_abstract_repr(doc) if codec == "abstract" else Sequence._deserialize(doc)
            except Exception as e:
                out.append((f"C04:decode-raises:{codec}:shared:{type(e).__name__}", f"{names}: {e}"[:200]))
                continue
            for av, tv in ((1.5, 100), (0.75, 200)):
                try:
                    b1 = tmpl.build(a=av, t=tv)
                except Exception:
                    continue
                try:
                    b2 = dec.build(a=av, t=tv)
                except Exception as e:
                    out.append((f"C04:decoded-build-raises:{codec}:shared:{type(e).__name__}", f"{names}: {e}"[:200]))
                    continue
                if norm(snapshot.snap(b1, False)) != norm(snapshot.snap(b2, False)):
                    out.append((f"C04:decoded-build-differs:{codec}:shared:{what}", f"arguments {names[0]} then {names[1]} over the same operands, a={av}, t={tv}"))
    return out + [("@roundtrip", "")]


def run_c08prog(name, chosen_t, mappable):
    """C08's skeleton templates (every expression kind at every position, incl. whole-array arguments combined with array
    literals) through both codecs: decode(encode(template)) builds to the same sequence as the template, for two assignments."""
    from pulser import Sequence

    chosen = dict(chosen_t)
    w = World(c08.WORLD)
    out = []
    with warnings.catch_warnings():
        warnings.simplefilter("ignore")
        pos = c08.positions_of(name, w)
        A = {p: b for p, (b, i) in pos.items()}
        B = {p: (c08.alt(b, i, p) if p in chosen else b) for p, (b, i) in pos.items()}
        qmap = {}
        if mappable:
            tmpl, mapping = c08.mappable_template(w)
            qmap = {"qubits": mapping}
        else:
            tmpl = w.fresh(apply_prefix=False)
        TV = c08.Vals("template", chosen, A, tmpl)
        try:
            c08.SKELETONS[name](tmpl, TV, w)
        except Exception as e:
            return gridx.crash_finding(e, "building-a-program", f"c08 skeleton {name} {chosen}") or [("@program-not-constructible", type(e).__name__)]
        if TV.skip:
            return [("@expression-not-applicable", "")]
        kinds = "+".join(sorted(set(chosen.values())))
        compared = 0
        for codec in ("abstract", "legacy"):
            try:
                doc = tmpl.to_abstract_repr() if codec == "abstract" else tmpl._serialize()
            except Exception as e:
                if "No abstract representation for" in str(e) or "only supported for the 'PchipInterpolator'" in str(e):
                    out.append(("@expression-not-exportable", str(e)[:60]))
                    continue
                if "of unknown length and unspecified 'times'" in str(e):
                    out.append((f"C04:encode-unsupported-interpolated-values-of-unknown-length:{codec}", f"c08-{name} {chosen}: {e}"[:250]))
                    continue
                out.append((f"C04:encode-raises:{codec}:c08-{name}:{type(e).__name__}", f"{chosen}: {e}"[:250]))
                continue
            if codec == "abstract":
                err = own_validate(json.loads(doc))
                if err:
                    out.append((f"C04:schema-invalid:c08-{name}", f"{chosen}: {err}"))
            try:
                dec = Sequence.from_abstract_repr(doc) if codec == "abstract" else Sequence._deserialize(doc)
            except Exception as e:
                out.append((f"C04:decode-raises:{codec}:c08-{name}:{type(e).__name__}", f"{chosen}: {e}"[:250]))
                continue
            # a mappable register may be built with only the first m of its declared ids mapped: whatever "every qubit" means in a
            # stored call is resolved then, for the original and for the decoded template alike
            partial = [("partial", {"qubits": {q: mapping[q] for q in w.qids[:m]}}) for m in range(1, len(w.qids))] if mappable else []
            for tag, assign in (("A", A), ("B", B)):
                vals = TV.var_values(assign)
                if vals is None:
                    continue
                for ptag, pq in partial if tag == "A" else []:
                    try:
                        p1 = tmpl.build(**vals, **pq)
                    except Exception:
                        continue
                    try:
                        p2 = dec.build(**vals, **pq)
                    except Exception as e:
                        out.append((f"C04:decoded-build-raises:partial-mapping:{codec}:c08-{name}:{type(e).__name__}", f"{chosen}, {len(pq['qubits'])} ids mapped: {e}"[:250]))
                        continue
                    compared += 1
                    if norm(snapshot.snap(p1, False)) != norm(snapshot.snap(p2, False)):
                        out.append((f"C04:decoded-build-differs:partial-mapping:{codec}:c08-{name}", f"{chosen}, {len(pq['qubits'])} ids mapped"))
                    # ... and the sequence built on the smaller register is itself exported and decoded
                    try:
                        pdoc = p1.to_abstract_repr() if codec == "abstract" else p1._serialize()
                        p3 = Sequence.from_abstract_repr(pdoc) if codec == "abstract" else Sequence._deserialize(pdoc)
                        sp1, sp3 = snapshot.snap(p1, False), snapshot.snap(p3, False)
                        for sx in (sp1, sp3):  # a built sequence keeps (unobservable) phase-reference entries of the ids that were not mapped
                            for basis_ in sx.basis_ref:
                                sx.basis_ref[basis_] = {q: v for q, v in sx.basis_ref[basis_].items() if q in pq["qubits"]}
                        if norm(sp3) != norm(sp1):
                            out.append((f"C04:decoded-built-sequence-differs:partial-mapping:{codec}:c08-{name}", f"{chosen}, {len(pq['qubits'])} ids mapped"))
                    except Exception as e:
                        if "No abstract representation for" not in str(e) and "only supported for the 'PchipInterpolator'" not in str(e):
                            out.append((f"C04:built-sequence-roundtrip-raises:partial-mapping:{codec}:c08-{name}:{type(e).__name__}",
                                        f"{chosen}, {len(pq['qubits'])} of {len(w.qids)} ids mapped: {e}"[:220]))
                try:
                    b1 = tmpl.build(**vals, **qmap)
                except Exception:
                    continue
                try:
                    b2 = dec.build(**vals, **qmap)
                except Exception as e:
                    out.append((f"C04:decoded-build-raises:{codec}:c08-{name}:{type(e).__name__}", f"{chosen} {tag}: {e}"[:250]))
                    continue
                compared += 1
                s1, s2 = snapshot.snap(b1, False), snapshot.snap(b2, False)
                if norm(s1) != norm(s2):
                    out.append((f"C04:decoded-build-differs:{codec}:c08-{name}:{_diff(s1, s2)}:{kinds}", f"{chosen} assignment {tag}"))
                # the BUILT sequence is a sequence like any other: it is exported and decoded too (its record holds the values the
                # variables were given, in whatever container the build left them)
                if tag == "A" and not mappable:
                    try:
                        bdoc = b1.to_abstract_repr() if codec == "abstract" else b1._serialize()
                        if codec == "abstract":
                            err = own_validate(json.loads(bdoc))
                            if err:
                                out.append((f"C04:schema-invalid:built:c08-{name}", f"{chosen}: {err}"))
                        b3 = Sequence.from_abstract_repr(bdoc) if codec == "abstract" else Sequence._deserialize(bdoc)
                        if norm(snapshot.snap(b3, False)) != norm(s1):
                            out.append((f"C04:decoded-built-sequence-differs:{codec}:c08-{name}:{kinds}", f"{chosen}"))
                    except Exception as e:
                        if "No abstract representation for" not in str(e) and "only supported for the 'PchipInterpolator'" not in str(e):
                            out.append((f"C04:built-sequence-roundtrip-raises:{codec}:c08-{name}:{type(e).__name__}", f"{chosen}: {e}"[:220]))
        # exporting WITH default values for the variables (and default traps for a mappable register): same document plus the values
        valsA = TV.var_values(A)
        if valsA is not None and (valsA or qmap):
            try:
                tmpl.build(**valsA, **qmap)
                buildable = True
            except Exception:
                buildable = False
            if buildable:
                try:
                    doc = tmpl.to_abstract_repr(**{k: (list(v) if isinstance(v, (list, tuple, np.ndarray)) else v) for k, v in valsA.items()}, **qmap)
                    d = json.loads(doc)
                    err = own_validate(d)
                    if err:
                        out.append((f"C04:schema-invalid:with-defaults:c08-{name}", f"{chosen}: {err}"))
                    for vn, vv in valsA.items():
                        got = d["variables"][vn].get("value")
                        want = [float(x) for x in np.atleast_1d(np.asarray(vv, dtype=float))]
                        if got is None or [float(x) for x in got] != want:
                            out.append((f"C04:default-values-not-stored:c08-{name}", f"{chosen}: variable {vn} given {want}, document holds {got}"))
                    if qmap:
                        reg_doc = {q["qid"]: q.get("default_trap") for q in d["register"]}
                        if any(reg_doc.get(str(q)) != t for q, t in qmap["qubits"].items()):
                            out.append((f"C04:default-traps-not-stored:c08-{name}", f"{chosen}: given {qmap['qubits']}, document holds {reg_doc}"))
                    dec = Sequence.from_abstract_repr(doc)
                    b1, b2 = tmpl.build(**valsA, **qmap), dec.build(**valsA, **qmap)
                    compared += 1
                    if norm(snapshot.snap(b1, False)) != norm(snapshot.snap(b2, False)):
                        out.append((f"C04:decoded-build-differs:abstract:with-defaults:c08-{name}", f"{chosen}"))
                except Exception as e:
                    if "No abstract representation for" not in str(e) and "of unknown length and unspecified 'times'" not in str(e) \
                            and "only supported for the 'PchipInterpolator'" not in str(e):
                        out.append((f"C04:export-with-defaults-raises:c08-{name}:{type(e).__name__}", f"{chosen} {valsA}: {e}"[:250]))
    return out + [("@roundtrip" if compared else "@nothing-built", "")]


# ---- two documents decoded one after the other in ONE process -------------------------------------------------------------
# Templates that use the SAME variable names with different sizes / types / roles: whatever the first decoding leaves behind in
# the process (tables of variables, caches) must not reach the second one.
def _hist_template(kind, w):
    from pulser import Pulse

    seq = w.fresh(apply_prefix=False)
    seq.declare_channel("g", "rydberg_global")
    if kind == "t-int":
        t = seq.declare_variable("t", dtype=int)
        seq.add(Pulse.ConstantPulse(t, 1.0, 0.0, 0.0), "g")
        return seq, [dict(t=100), dict(t=200)]
    if kind == "t-int-2":
        t = seq.declare_variable("t", dtype=int, size=2)
        seq.add(Pulse.ConstantPulse(t[0], 1.0, 0.0, 0.0), "g")
        seq.delay(t[1], "g")
        return seq, [dict(t=[100, 52]), dict(t=[200, 100])]
    if kind == "t-float":
        t = seq.declare_variable("t", dtype=float)
        seq.add(Pulse.ConstantPulse(100, t, 0.0, 0.0), "g")
        return seq, [dict(t=1.5), dict(t=0.25)]
    if kind == "t-float-3":
        t = seq.declare_variable("t", dtype=float, size=3)
        seq.add(Pulse.ConstantPulse(100, t[0], t[1], t[2]), "g")
        return seq, [dict(t=[1.5, -1.0, 0.5]), dict(t=[0.25, 2.0, 0.0])]
    if kind == "a-and-t":
        a = seq.declare_variable("a", dtype=float)
        t = seq.declare_variable("t", dtype=float)
        seq.add(Pulse.ConstantPulse(100, a + t, a - t, 0.0), "g")
        return seq, [dict(a=1.0, t=0.5), dict(a=2.0, t=-0.5)]
    if kind == "plain":
        seq.add(Pulse.ConstantPulse(100, 1.0, 0.0, 0.0), "g")
        return seq, [dict()]
    raise ValueError(kind)


HIST_KINDS = ["t-int", "t-int-2", "t-float", "t-float-3", "a-and-t", "plain"]


def run_decode_history(k1, k2, codec):
    from pulser import Sequence

    w = World(WSPEC)
    out = []
    with warnings.catch_warnings():
        warnings.simplefilter("ignore")
        try:
            (s1, a1), (s2, a2) = _hist_template(k1, w), _hist_template(k2, w)
            d1, d2 = ((s.to_abstract_repr() if codec == "abstract" else s._serialize()) for s in (s1, s2))
        except Exception as e:
            return gridx.crash_finding(e, "building-a-program", f"{k1} {k2}") or [("@program-not-constructible", type(e).__name__)]
        dec = (lambda d: Sequence.from_abstract_repr(d)) if codec == "abstract" else (lambda d: Sequence._deserialize(d))
        for which, (doc, orig, assigns) in (("first", (d1, s1, a1)), ("second", (d2, s2, a2)), ("first-again", (d1, s1, a1))):
            try:
                got = dec(doc)
            except Exception as e:
                out.append((f"C04:decode-raises-after-another-decoding:{codec}:{type(e).__name__}", f"{which} document ({k1} then {k2}): {e}"[:200]))
                continue
            for kw in assigns:
                try:
                    b1, b2 = orig.build(**kw) if orig.is_parametrized() else orig, got.build(**kw) if got.is_parametrized() else got
                except Exception as e:
                    out.append((f"C04:decoded-build-raises-after-another-decoding:{codec}:{type(e).__name__}", f"{which} document ({k1} then {k2}) with {kw}: {e}"[:200]))
                    continue
                if norm(snapshot.snap(b1, False)) != norm(snapshot.snap(b2, False)):
                    out.append((f"C04:decoded-build-differs-after-another-decoding:{codec}", f"{which} document ({k1} then {k2}) with {kw}"))
    return out + [("@roundtrip", "")]


def run_case(case):
    if case[0] == "dechist":
        return run_decode_history(case[1], case[2], case[3])
    if case[0] == "shared":
        return run_shared(case[1], case[2], case[3])
    if case[0] == "c08prog":
        return run_c08prog(case[1], case[2], case[3])
    return run_case_prog(case)


def run_case_prog(case):
    from pulser import Sequence

    name, active, chosen_t, regkind, devkind = case[:5]
    idkind = case[5] if len(case) > 5 else "str"
    chosen = dict(chosen_t)
    tag = f"{name}:{regkind}:{devkind}:{'param' if chosen else 'plain'}"
    out = []
    with warnings.catch_warnings():
        warnings.simplefilter("ignore")
        w = World(WSPEC)
        pos = None
        try:
            seq, V, mapping = build_program(name, active, chosen, regkind, devkind, "template" if chosen else "plain", idkind=idkind)
            ref, ref_mapping = seq, mapping
            if idkind in ("int", "intperm"):
                # the same program with every id written as str(id): what the abstract representation can express
                ref, _, ref_mapping = build_program(name, active, chosen, regkind, devkind, "template" if chosen else "plain",
                                                    idkind={"int": "strnum", "intperm": "strnumperm"}[idkind])
        except Exception as e:
            return gridx.crash_finding(e, "building-a-program", f"{case}") or [("@program-not-constructible", f"{type(e).__name__}")]
        idt = "" if idkind == "str" else f":ids={idkind}"
        if V.skip:
            return [("@expression-not-applicable", "")]
        before = snapshot.snap(seq, with_calls=True).key(with_calls=True)
        # assignments for parametrized programs
        A = {p: b for p, b, i in V.positions}
        ints = {p: i for p, b, i in V.positions}
        B = {p: (c08.alt(A[p], ints[p], p) if p in chosen else A[p]) for p in A}
        defaults = {}
        if mapping is not None:
            defaults["qubits"] = mapping
        vals = {}
        if chosen:
            vals["A"] = V.var_values(A)
            vals["B"] = V.var_values(B)
            if vals["A"] is None:
                return [("@expression-not-applicable", "")]
        for codec in ("abstract", "legacy"):
            if codec == "legacy" and devkind in ("custom-physical", "builtin-name-other-specs", "builtin-name-virtual"):
                continue
            try:
                if codec == "abstract":
                    if mapping is not None and not chosen:
                        doc = seq.to_abstract_repr()
                    else:
                        doc = seq.to_abstract_repr()
                else:
                    doc = seq._serialize()
            except Exception as e:
                msg = str(e)
                if "Export of an InterpolatedWaveform is only supported" in msg or "'interpolator' is not in the signature" in msg:
                    out.append((f"C04:encode-unsupported-interpolator:{codec}", f"{case}: {e}"[:250]))
                elif regkind.startswith("3d") and "too many values to unpack" in msg and any(type(c).__name__ == "DMM" for c in seq.declared_channels.values()):
                    out.append((f"C04:encode-unsupported-3d-detuning-map:{codec}", f"{case}: {e}"[:250]))
                elif "No abstract representation for" in msg:
                    op = msg.split("'")[1] if "'" in msg else "?"
                    out.append((f"C04:encode-unsupported-expression:{codec}:{op}", f"{case}: {e}"[:250]))
                else:
                    out.append((f"C04:encode-raises:{codec}:{name}:{type(e).__name__}", f"{case}: {e}"[:250]))
                continue
            if snapshot.snap(seq, with_calls=True).key(with_calls=True) != before:
                out.append((f"C04:encoding-changed-the-sequence:{codec}:{name}", f"{case}"))
                before = snapshot.snap(seq, with_calls=True).key(with_calls=True)
            if codec == "abstract":
                err = own_validate(json.loads(doc))
                if err:
                    out.append((f"C04:schema-invalid:{name}", f"{case}: {err}"))
            try:
                dec = Sequence.from_abstract_repr(doc) if codec == "abstract" else Sequence._deserialize(doc)
            except Exception as e:
                out.append((f"C04:decode-raises:{codec}:{name}:{type(e).__name__}", f"{case}: {e}"[:250]))
                continue
            cmp, cmp_mapping = (ref, ref_mapping) if codec == "abstract" else (seq, mapping)
            # fixpoint
            try:
                doc2 = dec.to_abstract_repr() if codec == "abstract" else dec._serialize()
                if codec == "abstract" and json.loads(doc2) != json.loads(doc):
                    out.append((f"C04:encode-decode-encode-not-fixpoint:{name}", f"{case}"))
            except Exception as e:
                out.append((f"C04:re-encode-raises:{codec}:{name}:{type(e).__name__}", f"{case}: {e}"[:200]))
            # device / register
            if dec.device != seq.device:
                out.append((f"C04:device-differs:{codec}:{devkind}", f"{case}"))
            try:
                r1, r2 = cmp.get_register(include_mappable=True), dec.get_register(include_mappable=True)
                same_reg = (list(r1.qubit_ids) == list(r2.qubit_ids)) and (r1.layout == r2.layout)
                if mapping is None:
                    same_reg = same_reg and r1 == r2
                if not same_reg:
                    out.append((f"C04:register-differs:{codec}:{regkind}{idt}", f"{case}"))
            except Exception as e:
                out.append((f"C04:register-compare-raises:{codec}:{regkind}", f"{e}"[:200]))
            # behaviour
            if not chosen and mapping is None:
                s1, s2 = snapshot.snap(cmp, False), snapshot.snap(dec, False)
                if norm(s1) != norm(s2):
                    out.append((f"C04:decoded-sequence-differs:{codec}:{name}:{_diff(s1, s2)}{idt}", f"{case}"))
            else:
                for an in (("A", "B") if chosen else ("A",)):
                    kw = dict(vals.get(an) or {})
                    if mapping is not None:
                        kw["qubits"] = cmp_mapping
                    try:
                        b1 = cmp.build(**kw)
                    except Exception:
                        continue  # this assignment is not accepted by the original either
                    try:
                        b2 = dec.build(**kw)
                    except Exception as e:
                        out.append((f"C04:decoded-build-raises:{codec}:{name}:{type(e).__name__}", f"{case} {an}: {e}"[:250]))
                        continue
                    s1, s2 = snapshot.snap(b1, False), snapshot.snap(b2, False)
                    if norm(s1) != norm(s2):
                        out.append((f"C04:decoded-build-differs:{codec}:{name}:{_diff(s1, s2)}{idt}", f"{case} assignment {an}"))
                if dec.is_parametrized() != seq.is_parametrized() or sorted(dec.declared_variables) != sorted(seq.declared_variables):
                    out.append((f"C04:decoded-variables-differ:{codec}:{name}", f"{case}"))
                # the channels the (still unbuilt) sequence declares: same names, same channel objects - also for the DMMs whose
                # configuration is only stored
                try:
                    c1 = {n: (type(c).__name__, c) for n, c in cmp.declared_channels.items()}
                    c2 = {n: (type(c).__name__, c) for n, c in dec.declared_channels.items()}
                    if set(c1) != set(c2) or any(c1[n][1] != c2[n][1] for n in c1):
                        out.append((f"C04:decoded-declared-channels-differ:{codec}:{name}", f"{case}: {sorted(c1)} vs {sorted(c2)}"))
                except Exception as e:
                    out.append((f"C04:declared-channels-raises:{codec}:{name}:{type(e).__name__}", f"{case}: {e}"[:200]))
            if dec.is_measured() != seq.is_measured() or (seq.is_measured() and dec.get_measurement_basis() != seq.get_measurement_basis()):
                out.append((f"C04:measurement-differs:{codec}:{name}", f"{case}"))
    return out + [("@roundtrip", "")]


def run(tier, seed):
    res = Result("exploration")
    cs = cases(tier)
    outs = gridx.run(run_case, cs, isolate=True)
    classes = {}
    for c, r in zip(cs, outs):
        for fp, d in r:
            if fp.startswith("@"):
                classes[fp] = classes.get(fp, 0) + 1
            else:
                if c[0] in ("shared", "dechist"):
                    res.add(Violation(fp, d, {"engine": "progx", "case": list(c)}, size=0))
                    continue
                if c[0] == "c08prog":
                    res.add(Violation(fp, d, {"engine": "progx", "case": [c[0], c[1], [list(x) for x in c[2]], c[3]]}, size=1))
                    continue
                res.add(Violation(fp, d, {"engine": "progx", "case": [c[0], list(c[1]), [list(x) for x in c[2]], c[3], c[4]] + list(c[5:])},
                                  size=len(c[1]) + len(c[2])))
    res.coverage = dict(
        evaluations=len(cs), distinct_nontrivial=classes.get("@roundtrip", 0), exhaustive=True, outcome_classes=classes,
        programs=len(cs), disagreements_checked=len(res.violations),
        rule="5 program families covering every building operation (declare with/without initial target, target by id / multi, delay, "
             "align, add with every waveform class and ArbitraryPhase, phase_shift incl. keyword phi and default basis, EOM ops incl. a "
             "sequence left in EOM mode, config_detuning_map / add_dmm_detuning, config_slm_mask before / after the first channel and "
             "pulse in Ising and XY, set_magnetic_field, measure) x argument-style deviations (each alone, pairs) x registers {2D, 3D, "
             "from layout, mappable} x devices {inline virtual, MockDevice, custom physical} x parametrized variants (each numeric "
             "position alone / all, rotating expression kinds) x both codecs; non-trivial = programs that were encoded and decoded",
        samples=[str(cs[i]) for i in (0, len(cs) // 2, len(cs) - 1)])
    res.assumptions = ["decoded sequences are compared on the canonical snapshot with channels as a name-keyed map (decoding declares all "
                       "channels first)", "for parametrized programs two assignments are built on both sides and compared"]
    return res


def replay(payload):
    c = payload["case"]
    if c[0] in ("shared", "dechist"):
        return [Violation(fp, d, payload) for fp, d in run_case(tuple(c)) if not fp.startswith("@")]
    if c[0] == "c08prog":
        return [Violation(fp, d, payload) for fp, d in run_case((c[0], c[1], tuple((int(p), k) for p, k in c[2]), c[3])) if not fp.startswith("@")]
    case = (c[0], tuple(c[1]), tuple((int(p), k) for p, k in c[2]), c[3], c[4]) + tuple(c[5:])
    return [Violation(fp, d, payload) for fp, d in run_case(case) if not fp.startswith("@")]
