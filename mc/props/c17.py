"""C17 — devices, registers, layouts, detuning maps, noise models, configs, results round-trip; no shared state.
GridX/ProgX over each class: optional fields at default / non-default, every subset of noise types; interleaved
construction / decoding of several instances with a deep field snapshot of the earlier ones (aliasing)."""
from __future__ import annotations

import dataclasses
import itertools
import json
import warnings

import numpy as np

from mc import gridx
from mc.evidence import Result, Violation


def deep(x, depth=0):
    """Deep, hashable field snapshot of an object (for aliasing checks and field-by-field comparison)."""
    if depth > 8:
        return repr(type(x))
    if isinstance(x, (str, int, float, bool, complex)) or x is None:
        return x
    if isinstance(x, np.ndarray):
        return ("arr", x.shape, tuple(np.round(x.astype(complex).ravel(), 12).tolist()))
    if isinstance(x, (list, tuple)):
        return tuple(deep(v, depth + 1) for v in x)
    if isinstance(x, (set, frozenset)):
        return ("set",) + tuple(sorted((deep(v, depth + 1) for v in x), key=repr))
    if isinstance(x, dict):
        return tuple(sorted(((repr(k), deep(v, depth + 1)) for k, v in x.items())))
    if hasattr(x, "as_array"):
        return deep(np.asarray(x.as_array(detach=True)), depth + 1)
    if hasattr(x, "traps_dict") and hasattr(x, "number_of_traps"):  # layouts (and subclasses): coordinates + slug
        return ("layout", deep(np.asarray(x.sorted_coords), depth + 1), getattr(x, "slug", None), deep(getattr(x, "weights", None), depth + 1))
    if hasattr(x, "full") and hasattr(x, "dims"):
        return deep(x.full(), depth + 1)
    if dataclasses.is_dataclass(x) and not isinstance(x, type):
        return (type(x).__name__,) + tuple((f.name, deep(getattr(x, f.name, None), depth + 1)) for f in dataclasses.fields(x)
                                           if f.compare)  # fields excluded from == (short_description) are documentation only
    d = {}
    for k in dir(type(x)):
        pass
    if hasattr(x, "__dict__"):
        return (type(x).__name__,) + tuple(sorted(((k, deep(v, depth + 1)) for k, v in vars(x).items() if not k.startswith("__")), key=repr))
    return repr(x)


# ---- noise models ----------------------------------------------------------------------------------
OP2 = [[0.0, 1.0], [0.0, 0.0]]
OP2B = [[1.0, 0.0], [0.0, -1.0]]
OP3 = [[0.0, 0.0, 1.0], [0.0, 0.0, 0.0], [0.0, 0.0, 0.0]]
NOISE_PARAMS = {
    "relaxation": [dict(relaxation_rate=0.1)],
    "dephasing": [dict(dephasing_rate=0.2), dict(hyperfine_dephasing_rate=0.05), dict(dephasing_rate=0.2, hyperfine_dephasing_rate=0.05)],
    "depolarizing": [dict(depolarizing_rate=0.3)],
    "eff_noise": [dict(eff_noise_rates=(0.1,), eff_noise_opers=(OP2,)), dict(eff_noise_rates=(0.1, 0.25), eff_noise_opers=(OP2, OP2B))],
    "doppler": [dict(temperature=50.0, runs=3, samples_per_run=2)],
    "amplitude": [dict(amp_sigma=0.05, runs=3, samples_per_run=2), dict(laser_waist=100.0), dict(amp_sigma=0.05, laser_waist=80.0, runs=4, samples_per_run=1)],
    "SPAM": [dict(state_prep_error=0.1, runs=3, samples_per_run=2), dict(p_false_pos=0.02), dict(p_false_neg=0.07), dict(state_prep_error=0.1, p_false_pos=0.02, p_false_neg=0.07, runs=5, samples_per_run=1)],
}


def noise_cases(tier):
    out = []
    types = list(NOISE_PARAMS)
    for r in range(0, len(types) + 1):
        for sub in itertools.combinations(types, r):
            variants = [NOISE_PARAMS[t] for t in sub]
            combos = list(itertools.product(*variants)) if tier == "thorough" or r <= 2 else [tuple(v[i % len(v)] for i, v in enumerate(variants)), tuple(v[-1] for v in variants)]
            for combo in combos:
                kw = {}
                for d in combo:
                    kw.update(d)
                out.append(("noise", sub, kw))
    out.append(("noise", ("eff_noise", "leakage"), dict(eff_noise_rates=(0.1,), eff_noise_opers=(OP3,), with_leakage=True)))
    out.append(("noise", ("eff_noise", "leakage", "relaxation"), dict(eff_noise_rates=(0.1,), eff_noise_opers=(OP3,), with_leakage=True, relaxation_rate=0.2)))
    # effective-noise channels with a rate of exactly 0 (valid: rates only have to be >= 0) - a sweep starting at 0, the identity
    # placeholder that merely switches the leakage state on
    ID3 = [[1.0, 0.0, 0.0], [0.0, 1.0, 0.0], [0.0, 0.0, 1.0]]
    out.append(("noise", ("eff_noise",), dict(eff_noise_rates=(0.0, 0.3), eff_noise_opers=(OP2, OP2B))))
    out.append(("noise", ("eff_noise",), dict(eff_noise_rates=(0.3, 0.0), eff_noise_opers=(OP2, OP2B))))
    out.append(("noise", ("eff_noise",), dict(eff_noise_rates=(0.0,), eff_noise_opers=(OP2,))))
    out.append(("noise", ("eff_noise", "leakage"), dict(eff_noise_rates=(0.0,), eff_noise_opers=(ID3,), with_leakage=True)))
    out.append(("noise", ("eff_noise", "leakage", "dephasing"), dict(eff_noise_rates=(0.0, 0.2), eff_noise_opers=(ID3, OP3), with_leakage=True, dephasing_rate=0.1)))
    return out


def check_noise(sub, kw):
    from pulser.noise_model import NoiseModel
    from pulser_simulation import SimConfig

    out = []
    nm = NoiseModel(**kw)
    if set(nm.noise_types) != set(sub):
        out.append((f"C17:noise-types:{'+'.join(sub) or 'none'}", f"parameters {sorted(kw)} give noise types {nm.noise_types}, expected {sub}"))
    try:
        s = nm.to_abstract_repr()
        back = NoiseModel.from_abstract_repr(s)
    except Exception as e:
        return out + [(f"C17:noise-model-roundtrip-raises:{type(e).__name__}", f"{kw}: {e}"[:200])]
    if back != nm or deep(back) != deep(nm):
        diff = [f.name for f in dataclasses.fields(nm) if deep(getattr(nm, f.name)) != deep(getattr(back, f.name))]
        out.append((f"C17:noise-model-roundtrip-differs:{'+'.join(diff)}", f"{kw}"))
    # NoiseModel <-> SimConfig
    if "leakage" not in sub:
        try:
            cfg = SimConfig.from_noise_model(nm)
            nm2 = cfg.to_noise_model()
        except Exception as e:
            return out + [(f"C17:simconfig-conversion-raises:{type(e).__name__}", f"{kw}: {e}"[:200])]
        if set(nm2.noise_types) != set(nm.noise_types):
            out.append((f"C17:simconfig-noise-types", f"{kw}: {nm.noise_types} -> {nm2.noise_types}"))
        rel = NoiseModel._find_relevant_params(nm.noise_types, nm.state_prep_error, nm.amp_sigma, nm.laser_waist)
        for p in sorted(rel):
            a, b = getattr(nm, p), getattr(nm2, p)
            same = deep(a) == deep(b) if not isinstance(a, float) else (b is not None and abs(a - b) <= 1e-12 * max(1, abs(a)))
            if not same:
                out.append((f"C17:simconfig-parameter:{p}", f"{kw}: {a} -> {b}"))
    return out + [("@noise", "")]


# ---- devices -------------------------------------------------------------------------------------------
def device_cases(tier):
    out = []
    opt = dict(
        max_atom_num=[None, 20], max_radial_distance=[None, 40], interaction_coeff_xy=[None, 3700.0], supports_slm_mask=[False, True],
        max_layout_filling=[0.5, 0.8], optimal_layout_filling=[None, 0.4], min_layout_traps=[1, 3], max_layout_traps=[None, 200],
        max_sequence_duration=[None, 5000], max_runs=[None, 100], reusable_channels=[False, True], requires_layout=[False, True],
    )
    keys = list(opt)
    base = {k: v[0] for k, v in opt.items()}
    combos = [dict(base)]
    for k in keys:
        combos.append(dict(base, **{k: opt[k][1]}))
    for a, b in itertools.combinations(keys, 2):
        combos.append(dict(base, **{a: opt[a][1], b: opt[b][1]}))
    combos.append({k: v[1] for k, v in opt.items()})
    for i, c in enumerate(combos):
        for chset in ("plain", "eom", "dmm", "noise", "ids"):
            if tier == "quick" and i > len(keys) + 1 and (i + len(chset)) % 5:
                continue
            out.append(("vdevice", c, chset))
        if i < 3:
            for chset in ("eom-RB", "eom-R", "eom-B", "ids-rev", "dmm-rev"):
                out.append(("vdevice", c, chset))
    for mod in ("none", "layouts", "layouts-negzero", "layouts-same-slug", "layouts-no-slug", "layouts-listed-twice", "noise", "filling", "eom-custom", "no-dmm"):
        out.append(("device", mod))
    return out


def _channels(chset):
    from pulser.channels import DMM, Microwave, Raman, Rydberg
    from pulser.channels.eom import RydbergBeam, RydbergEOM

    eom = RydbergEOM(mod_bandwidth=40, limiting_beam=RydbergBeam.RED, max_limiting_amp=188.5, intermediate_detuning=2827.4,
                     controlled_beams=(RydbergBeam.BLUE, RydbergBeam.RED), multiple_beam_control=False, custom_buffer_time=240,
                     blue_shift_coeff=0.9, red_shift_coeff=1.1)
    chans = [Rydberg.Global(None, None, max_duration=None), Raman.Local(20.0, 10.0, min_retarget_interval=220, fixed_retarget_t=16,
                                                                       max_targets=2, clock_period=4, min_duration=16, max_duration=1000,
                                                                       mod_bandwidth=8.0, custom_phase_jump_time=42, min_avg_amp=0.5)]
    dmms = ()
    kw = {}
    if chset.startswith("eom"):
        if chset != "eom":  # other beam selections and ORDERS of the tuple field: eom-RB, eom-R, eom-B (limiting beam BLUE)
            import dataclasses

            beams = {"eom-RB": (RydbergBeam.RED, RydbergBeam.BLUE), "eom-R": (RydbergBeam.RED,), "eom-B": (RydbergBeam.BLUE,)}[chset]
            eom = dataclasses.replace(eom, controlled_beams=beams, limiting_beam=RydbergBeam.BLUE, multiple_beam_control=len(beams) > 1,
                                      custom_buffer_time=None)
        chans[0] = Rydberg.Global(20.0, 10.0, mod_bandwidth=4.0, eom_config=eom, max_duration=None, propagation_dir=(1.0, 0.0, 0.0))
    if chset in ("dmm", "noise"):
        dmms = (DMM(bottom_detuning=-20.0, total_bottom_detuning=-100.0, clock_period=4, min_duration=16, mod_bandwidth=8.0), DMM())
    if chset == "noise":
        from pulser.noise_model import NoiseModel

        kw["default_noise_model"] = NoiseModel(relaxation_rate=0.1, p_false_pos=0.02, eff_noise_rates=(0.1,), eff_noise_opers=(OP2,))
    if chset in ("ids", "ids-rev"):
        chans.append(Microwave.Global(None, None, max_duration=None))
        kw["channel_ids"] = ("ryd", "ram_loc", "mw")
        if chset == "ids-rev":  # the same channels listed in another order
            chans.reverse()
            kw["channel_ids"] = ("mw", "ram_loc", "ryd")
    if chset == "dmm-rev":
        dmms = (DMM(), DMM(bottom_detuning=-20.0, total_bottom_detuning=-100.0, clock_period=4, min_duration=16, mod_bandwidth=8.0))
    return tuple(chans), dmms, kw


def check_vdevice(params, chset):
    from pulser.devices import VirtualDevice

    out = []
    chans, dmms, kw = _channels(chset)
    p = dict(params)
    if p.get("supports_slm_mask") and not dmms:
        from pulser.channels import DMM

        dmms = (DMM(),)
    try:
        dev = VirtualDevice(name="V", dimensions=3, rydberg_level=61, min_atom_distance=1.0, channel_objects=chans, dmm_objects=dmms, **p, **kw)
    except Exception as e:
        return [("@device-not-constructible", str(e)[:80])]
    try:
        s = dev.to_abstract_repr()
        back = VirtualDevice.from_abstract_repr(s)
    except Exception as e:
        return [(f"C17:device-roundtrip-raises:{chset}:{type(e).__name__}", f"{params}: {e}"[:250])]
    if back != dev:
        diff = [f.name for f in dataclasses.fields(dev) if deep(getattr(dev, f.name)) != deep(getattr(back, f.name))]
        out.append((f"C17:device-roundtrip-differs:{'+'.join(diff) or 'eq-only'}", f"{chset} {params}"))
    elif deep(back) != deep(dev):
        diff = [f.name for f in dataclasses.fields(dev) if deep(getattr(dev, f.name)) != deep(getattr(back, f.name))]
        out.append((f"C17:device-roundtrip-field-differs:{'+'.join(diff)}", f"{chset} {params}"))
    return out + [("@device", "")]


def check_device(mod):
    import pulser
    from pulser.devices import Device
    from pulser.register.special_layouts import TriangularLatticeLayout

    out = []
    base = pulser.AnalogDevice
    if mod == "layouts":
        dev = dataclasses.replace(base, pre_calibrated_layouts=(TriangularLatticeLayout(20, 6.0), TriangularLatticeLayout(30, 7.5)), accepts_new_layouts=False)
    elif mod == "layouts-negzero":
        from pulser.register.register_layout import RegisterLayout

        lay = RegisterLayout([(-0.0, 0.0), (6.0, -1e-9), (-3e-16, 6.0), (6.0, 6.0), (12.0, 0.0), (12.0, 6.0)], slug="nz")
        dev = dataclasses.replace(base, pre_calibrated_layouts=(lay,))
    elif mod in ("layouts-same-slug", "layouts-no-slug", "layouts-listed-twice"):
        # slugs are optional labels, nothing requires them to be unique; the same layout may be listed twice
        from pulser.register.register_layout import RegisterLayout

        sq = [(6.0 * i, 6.0 * j) for i in range(3) for j in range(3)]
        tri = [(0.0, 0.0), (7.0, 0.0), (3.5, 6.0), (10.5, 6.0), (14.0, 0.0), (7.0, 12.0)]
        if mod == "layouts-same-slug":
            lays = (RegisterLayout(sq, slug="calibrated"), RegisterLayout(tri, slug="calibrated"))
        elif mod == "layouts-no-slug":
            lays = (RegisterLayout(sq), RegisterLayout(tri))
        else:
            lays = (RegisterLayout(sq, slug="a"), RegisterLayout(sq, slug="a"), RegisterLayout(tri))
        dev = dataclasses.replace(base, pre_calibrated_layouts=lays)
    elif mod == "noise":
        from pulser.noise_model import NoiseModel

        dev = dataclasses.replace(base, default_noise_model=NoiseModel(dephasing_rate=0.1, temperature=30.0, runs=2, samples_per_run=1))
    elif mod == "filling":
        dev = dataclasses.replace(base, max_layout_filling=0.7, optimal_layout_filling=0.45, max_layout_traps=150, max_runs=500)
    elif mod == "eom-custom":
        ch = base.channels["rydberg_global"]
        eom = dataclasses.replace(ch.eom_config, custom_buffer_time=300, multiple_beam_control=False, blue_shift_coeff=1.2)
        dev = dataclasses.replace(base, channel_objects=(dataclasses.replace(ch, eom_config=eom),))
    elif mod == "no-dmm":
        dev = dataclasses.replace(pulser.DigitalAnalogDevice, dmm_objects=(), supports_slm_mask=False)
    else:
        dev = pulser.DigitalAnalogDevice
    try:
        back = Device.from_abstract_repr(dev.to_abstract_repr())
    except Exception as e:
        return [(f"C17:device-roundtrip-raises:physical-{mod}:{type(e).__name__}", f"{e}"[:250])]
    if back != dev or deep(back) != deep(dev):
        diff = [f.name for f in dataclasses.fields(dev) if f.compare and deep(getattr(dev, f.name)) != deep(getattr(back, f.name))]
        out.append((f"C17:device-roundtrip-differs:{'+'.join(diff) or 'eq-only'}", f"physical device variant {mod}"))
    return out + [("@device", "")]


# ---- registers, layouts, detuning maps ---------------------------------------------------------------------
def reg_cases(tier):
    out = []
    for dim in (2, 3):
        for order in itertools.permutations(range(3)):
            for ids in (("q0", "q1", "q2"), ("b", "a", "c"), (2, 0, 1)):
                for layout in (False, True):
                    out.append(("register", dim, order, ids, layout))
    # coordinates that hold a negative zero after rounding (explicit -0.0, tiny negative values as left by rotations)
    for dim in (2, 3):
        for order in ((0, 1, 2), (2, 0, 1)):
            for layout in (False, True):
                out.append(("register", dim, order, ("q0", "q1", "q2"), layout, "negzero"))
    # how much of its layout the register fills: every trap ("full"), all but one (the cases above), a third ("sparse"); and the
    # smallest case of all, one atom on a layout of one trap ("single")
    for dim in (2, 3):
        for order in itertools.permutations(range(3)):
            for ids in (("q0", "q1", "q2"), (2, 0, 1)):
                for layout in ("full", "sparse"):
                    out.append(("register", dim, order, ids, layout))
        out.append(("register", dim, (0,), ("q0",), "single"))
        out.append(("register", dim, (0,), (0,), "single"))
    pts2 = [(5.0, 0.0), (0.0, 0.0), (0.0, 5.0), (5.0, 5.0)]
    ws = [0.3, 0.1, 0.4, 0.2]
    for perm in itertools.permutations(range(4)):
        out.append(("detmap", tuple(pts2[i] for i in perm), tuple(ws[i] for i in perm)))
    return out


def check_register(dim, order, ids, layout, ptskind="plain"):
    from pulser import Register, Register3D
    from pulser.json.abstract_repr.deserializer import deserialize_abstract_layout, deserialize_abstract_register
    from pulser.register.register_layout import RegisterLayout

    out = []
    pts = [(0.0, 0.0), (8.0, 1.5), (3.0, -9.25)] if dim == 2 else [(0.0, 0.0, 0.0), (8.0, 1.5, 2.0), (3.0, -9.25, -4.0)]
    if ptskind == "negzero":
        pts = [(-0.0, 0.0), (8.0, -1e-9), (-3e-16, -9.25)] if dim == 2 else [(-0.0, 0.0, -1e-9), (8.0, -1e-9, 2.0), (3.0, -9.25, -0.0)]
    coords = {ids[i]: pts[i] for i in order}
    if layout:
        far = [(20.0, 20.0)] if dim == 2 else [(20.0, 20.0, 20.0)]
        if layout in ("full", "single"):
            far = []
        elif layout == "sparse":
            far = [tuple(20.0 + 7.0 * k for _ in range(dim)) for k in range(6)]
        lpts = pts[::-1] if layout != "single" else pts[:1]
        L = RegisterLayout(lpts + far, slug="lay")
        trap_ids = L.get_traps_from_coordinates(*coords.values())
        reg = L.define_register(*trap_ids, qubit_ids=list(coords))
        Lb = deserialize_abstract_layout(L.to_abstract_repr())
        if Lb != L or Lb.slug != L.slug or deep(Lb.traps_dict) != deep(L.traps_dict):
            out.append((f"C17:layout-roundtrip-differs:{dim}d", ""))
    else:
        reg = (Register if dim == 2 else Register3D)(coords)
    try:
        back = deserialize_abstract_register(reg.to_abstract_repr())
    except Exception as e:
        return out + [(f"C17:register-roundtrip-raises:{dim}d:{type(e).__name__}", f"{coords}: {e}"[:200])]
    if back != reg or list(back.qubit_ids) != list(reg.qubit_ids) or type(back) is not type(reg):
        cls = "non-string-ids" if not all(isinstance(i, str) for i in ids) else ("layout" if layout else "plain")
        out.append((f"C17:register-roundtrip-differs:{dim}d:{cls}", f"{coords} -> {back.qubits}"))
    if (back.layout is None) != (reg.layout is None) or (reg.layout is not None and back.layout != reg.layout):
        out.append((f"C17:register-layout-lost:{dim}d", f"{len(coords)} atoms on a layout of {reg.layout.number_of_traps if reg.layout is not None else 0} traps"))
    elif reg.layout is not None and (back.layout.slug != reg.layout.slug or deep(back.layout.traps_dict) != deep(reg.layout.traps_dict)
                                     or list(getattr(back, "_layout_info").trap_ids) != list(getattr(reg, "_layout_info").trap_ids)):
        out.append((f"C17:register-layout-differs:{dim}d", f"slug {back.layout.slug!r} vs {reg.layout.slug!r}, trap ids "
                    f"{list(back._layout_info.trap_ids)} vs {list(reg._layout_info.trap_ids)}"))
    return out + [("@register", "")]


def check_detmap(pts, ws):
    """A detuning map (traps given in arbitrary order) through the sequence abstract representation."""
    from pulser import Pulse, Register, Sequence
    from pulser.register.weight_maps import DetuningMap

    from mc.worlds import World, corner

    out = []
    w = World(corner("unit", name="dm"))
    reg = Register({f"q{i}": p for i, p in enumerate(sorted(pts))})
    dm = DetuningMap(list(pts), list(ws))
    seq = Sequence(reg, w.device)
    seq.config_detuning_map(dm, "dmm_0")
    seq.declare_channel("g", "rydberg_global")
    try:
        dec = Sequence.from_abstract_repr(seq.to_abstract_repr())
    except Exception as e:
        return [(f"C17:detuning-map-roundtrip-raises:{type(e).__name__}", f"{e}"[:200])]
    dm2 = dec._schedule["dmm_0"].detuning_map
    wm1, wm2 = dm.get_qubit_weight_map(reg.qubits), dm2.get_qubit_weight_map(reg.qubits)
    if dm2 != dm or any(abs(wm1[q] - wm2[q]) > 1e-12 for q in wm1):
        out.append(("C17:detuning-map-roundtrip-differs", f"traps given as {pts} with weights {ws}: per-qubit weights {wm1} -> {wm2}"))
    return out + [("@detmap", "")]


# ---- emulation configs, states, operators, results -----------------------------------------------------------
def config_cases(tier):
    out = []
    for obs, times, init, nm in itertools.product(
            [("bit",), ("occ", "corr"), ("energy", "var", "second"), ("fid", "exp"), ("bit", "occ", "fid", "exp", "energy")],
            [None, (0.0, 0.5, 1.0), (0.25,)], [None, "ket", "ket3"], [None, "deph", "spam"]):
        out.append(("config", obs, times, init, nm))
    # every noise type inside a configuration (the config schema embeds the noise-model schema)
    for nm in ("eff", "eff-leak", "doppler", "amp", "all-rates"):
        for obs in (("bit",), ("occ", "corr")):
            out.append(("config", obs, (0.0, 0.5, 1.0), None, nm))
    for grid in RESULT_GRIDS:
        for kind in ("plain", "with-matrix", "one-atom"):
            out.append(("results", grid, kind))
    for flag in ("with_modulation", "prefer_device_noise_model"):
        for kind in ("np-true", "np-false", "np-comparison", "int-1", "int-0", "true", "false"):
            out.append(("config-flags", flag, kind))
    for n1, n2, n3 in itertools.permutations([1, 2, 3], 3):
        out.append(("alias-state", (n1, n2, n3)))
    for which in ("dict", "list", "matrix", "times", "all"):
        out.append(("alias-config", which))
    for order in itertools.permutations(range(3)):
        out.append(("alias-noise", order))
        out.append(("alias-device", order))
        out.append(("alias-register", order))
        out.append(("alias-layout", order))
        out.append(("alias-layout-same-traps", order))
    return out


def _state(kind):
    from pulser.backend.state import StateRepr

    if kind == "ket":
        return StateRepr.from_state_amplitudes(eigenstates=("r", "g"), amplitudes={"rg": 0.6, "gr": 0.8j})
    if kind == "ket3":
        return StateRepr.from_state_amplitudes(eigenstates=("r", "g", "h"), amplitudes={"rgh": 1.0})
    return None


def check_config(obs, times, init, nm):
    from pulser.backend import (BitStrings, CorrelationMatrix, EmulationConfig, Energy, EnergySecondMoment, EnergyVariance, Expectation,
                                Fidelity, Occupation)
    from pulser.backend.operator import OperatorRepr
    from pulser.noise_model import NoiseModel

    out = []
    t = list(times) if times else None
    mk = {
        "bit": lambda: BitStrings(evaluation_times=t, num_shots=123, one_state="r", tag_suffix="a"),
        "occ": lambda: Occupation(evaluation_times=t, one_state="r"),
        "corr": lambda: CorrelationMatrix(evaluation_times=t, one_state="r"),
        "energy": lambda: Energy(evaluation_times=t),
        "var": lambda: EnergyVariance(evaluation_times=t, tag_suffix="v"),
        "second": lambda: EnergySecondMoment(evaluation_times=t),
        "fid": lambda: Fidelity(_state("ket"), evaluation_times=t, tag_suffix="f"),
        "exp": lambda: Expectation(OperatorRepr.from_operator_repr(eigenstates=("r", "g"), n_qudits=2,
                                                                   operations=[(0.5 - 0.25j, [({"rr": 1.0, "gr": 2.0j}, {0}), ({"gg": -1.0}, {1})]), (2.0, [({"rg": 1.0}, {0, 1})])]),
                                   evaluation_times=t, tag_suffix="e"),
    }
    try:
        observables = [mk[o]() for o in obs]
        noise = {None: NoiseModel(), "deph": NoiseModel(dephasing_rate=0.1, relaxation_rate=0.2),
                 "spam": NoiseModel(p_false_pos=0.02, p_false_neg=0.05),
                 "eff": NoiseModel(eff_noise_rates=(0.1, 0.25), eff_noise_opers=(OP2, OP2B)),
                 "eff-leak": NoiseModel(eff_noise_rates=(0.1,), eff_noise_opers=(OP3,), with_leakage=True),
                 "doppler": NoiseModel(temperature=50.0, runs=3, samples_per_run=2),
                 "amp": NoiseModel(amp_sigma=0.05, laser_waist=80.0, runs=4, samples_per_run=1),
                 "all-rates": NoiseModel(relaxation_rate=0.1, dephasing_rate=0.2, hyperfine_dephasing_rate=0.05, depolarizing_rate=0.3,
                                         state_prep_error=0.1, runs=2, samples_per_run=2)}[nm]
        cfg = EmulationConfig(observables=observables, default_evaluation_times="Full" if times is None else (0.0, 1.0),
                              initial_state=_state(init), noise_model=noise, with_modulation=times is not None, interaction_cutoff=0.1 if nm else None)
    except Exception as e:
        return [("@config-not-constructible", str(e)[:100])]
    try:
        s = cfg.to_abstract_repr()
        back = EmulationConfig.from_abstract_repr(s)
        s2 = back.to_abstract_repr()
    except Exception as e:
        return [(f"C17:config-roundtrip-raises:{type(e).__name__}{':' + nm if nm in ('eff', 'eff-leak') else ''}", f"{obs} {times} {init} {nm}: {e}"[:250])]
    if json.loads(s) != json.loads(s2):
        d1, d2 = json.loads(s), json.loads(s2)
        keys = [k for k in d1 if d1.get(k) != d2.get(k)]
        out.append((f"C17:config-roundtrip-differs:{'+'.join(keys)}", f"{obs} {times} {init} {nm}"))
    o1 = [(type(o).__name__, o.tag, deep(o.evaluation_times)) for o in cfg.observables]
    o2 = [(type(o).__name__, o.tag, deep(o.evaluation_times)) for o in back.observables]
    if o1 != o2:
        out.append(("C17:config-observables-differ", f"{o1} -> {o2}"))
    if back.noise_model != cfg.noise_model:
        out.append(("C17:config-noise-model-differs", ""))
    return out + [("@config", "")]


RESULT_GRIDS = {
    "decimal": [0.1, 0.5, 1.0],
    "thirds": [1 / 3, 2 / 3, 1.0],
    "sevenths": [k / 7 for k in range(8)],
    "full-101": [k / 101 for k in range(102)],
    "tiny-steps": [0.3, 0.3 + 1e-15, 0.30000000000000004 + 2e-16, 1.0 - 1e-16, 1.0],
}


def check_results(grid, kind):
    """A Results object comes back from its JSON with every field equal: atom order, duration, tags, the stored TIMES bit for bit (they are
    the keys of get_result) and the values."""
    from collections import Counter

    from pulser.backend import BitStrings, CorrelationMatrix, Energy, Occupation
    from pulser.backend.results import Results

    times = sorted(set(RESULT_GRIDS[grid]))
    res = Results(atom_order=("q1", "q0", "q2") if kind != "one-atom" else ("a",), total_duration=1000 if grid != "full-101" else 101)
    obs = [BitStrings(evaluation_times=times, num_shots=10, tag_suffix="b"), Occupation(evaluation_times=times), Energy(evaluation_times=times),
           CorrelationMatrix(evaluation_times=times)]
    n = len(res.atom_order)
    for i, t in enumerate(times):
        res._store(observable=obs[0], time=t, value=Counter({"0" * n: 10 - (i % 3), "1" * n: i % 3}))
        res._store(observable=obs[1], time=t, value=[0.125 * (i % 5)] * n)
        res._store(observable=obs[2], time=t, value=-1.5 + i / 3)
        if kind == "with-matrix":
            res._store(observable=obs[3], time=t, value=[[0.25 * (i % 3)] * n for _ in range(n)])
    out = []
    try:
        doc = res.to_abstract_repr()
        back = Results.from_abstract_repr(doc)
    except Exception as e:
        return gridx.crash_finding(e, "round-tripping-results", f"{grid} {kind}") or [(f"C17:results-roundtrip-raises:{type(e).__name__}", f"{grid} {kind}: {e}"[:200])]
    if back.atom_order != res.atom_order or back.total_duration != res.total_duration or sorted(back.get_result_tags()) != sorted(res.get_result_tags()):
        out.append(("C17:results-roundtrip-differs:header", f"{grid} {kind}"))
    for o in obs[: 4 if kind == "with-matrix" else 3]:
        t1, t2 = res.get_result_times(o), back.get_result_times(o.tag)
        if [float(x) for x in t1] != [float(x) for x in t2]:
            k = next((i for i, (a, b) in enumerate(zip(t1, t2)) if float(a) != float(b)), None)
            out.append((f"C17:results-roundtrip-differs:times:{grid}", f"{o.tag}: stored {t1[k] if k is not None else len(t1)!r}, read back {t2[k] if k is not None else len(t2)!r}"))
            continue
        for t in t1:
            try:
                v1, v2 = res.get_result(o, t), back.get_result(o.tag, t)
            except Exception as e:
                out.append((f"C17:results-roundtrip-value-not-retrievable:{grid}", f"{o.tag} at {t!r}: {e}"[:160]))
                break
            if deep(v1 if not isinstance(v1, Counter) else dict(v1)) != deep(v2 if not isinstance(v2, Counter) else dict(v2)):
                out.append((f"C17:results-roundtrip-differs:values:{o._base_tag}", f"{grid} at {t!r}: {v1!r} vs {v2!r}"[:200]))
                break
    return out + [("@results", "")]


def check_config_flags(flag, kind):
    """The two boolean options of an emulation configuration given as something truthy / falsy that is not a Python bool (the result
    of a numpy comparison, 0 / 1): the configuration is built, serialises to a schema-valid document and comes back with the same truth
    values as plain booleans."""
    from pulser.backend import BitStrings, EmulationConfig

    val = {"np-true": np.bool_(True), "np-false": np.bool_(False), "np-comparison": (np.array([1.0, 2.0]) > 0.5).any(), "int-1": 1, "int-0": 0,
           "true": True, "false": False}[kind]
    try:
        cfg = EmulationConfig(observables=[BitStrings(evaluation_times=[1.0])], **{flag: val})
    except Exception as e:
        return [("@config-not-constructible", str(e)[:100])]
    try:
        doc = cfg.to_abstract_repr()
        back = EmulationConfig.from_abstract_repr(doc)
    except Exception as e:
        return [(f"C17:config-roundtrip-raises:{type(e).__name__}:{flag}={kind}", f"{e}"[:200])]
    out = []
    got, got_back = getattr(cfg, flag), getattr(back, flag)
    if bool(got) != bool(val) or got_back is not bool(val):
        out.append((f"C17:config-flag-roundtrip-differs:{flag}={kind}", f"given {val!r}, stored {got!r}, decoded {got_back!r}"))
    if json.loads(doc).get(flag) is not bool(val):
        out.append((f"C17:config-flag-not-a-json-boolean:{flag}={kind}", f"document holds {json.loads(doc).get(flag)!r}"))
    return out + [("@config", "")]


def check_alias(kind, order):
    """Construct / decode several instances of one class in a given order; earlier instances must not change."""
    out = []
    if kind == "alias-state":
        from pulser.backend.state import StateRepr

        made = []
        for n in order:
            st = StateRepr.from_state_amplitudes(eigenstates=("r", "g"), amplitudes={"r" * n: 1.0})
            made.append((n, st))
            for m, s0 in made:
                if s0.n_qudits != m:
                    out.append(("C17:instances-share-state:StateRepr.n_qudits", f"after creating states of {order[:len(made)]} qudits, the {m}-qudit state reports n_qudits={s0.n_qudits}"))
        return out + [("@alias", "")]
    if kind == "alias-config":
        # two configurations built one after the other from the same caller-owned argument objects, edited in between
        from pulser.backend import EmulationConfig, Occupation

        solver = {"max_step": 0.5, "nested": {"a": [1, 2]}}
        tags = ["x", "y"]
        mat = np.array([[0.0, 1.0], [1.0, 0.0]])
        times = [0.0, 0.5, 1.0]
        obs = [Occupation(one_state="r")]
        kw = dict(observables=obs, interaction_matrix=mat, default_evaluation_times=times, solver=solver, tags=tags)
        first = EmulationConfig(**kw)
        snap0 = json.dumps(json.loads(first.to_abstract_repr(skip_validation=True)), sort_keys=True)
        opt0 = deep({k: v for k, v in first._backend_options.items() if k != "observables"})
        which = order
        if which in ("dict", "all"):
            solver["max_step"] = 0.01
            solver["nested"]["a"].append(3)
        if which in ("list", "all"):
            tags.append("z")
        if which in ("matrix", "all"):
            mat[0, 1] = mat[1, 0] = 7.0
        if which in ("times", "all"):
            times[1] = 0.25
        second = EmulationConfig(**kw)
        snap1 = json.dumps(json.loads(first.to_abstract_repr(skip_validation=True)), sort_keys=True)
        if snap1 != snap0 or deep({k: v for k, v in first._backend_options.items() if k != "observables"}) != opt0:
            out.append((f"C17:instances-share-state:EmulationConfig:{which}", "the first configuration changed when the arguments it was built from were edited before building a second one"))
        return out + [("@alias", "")]
    makers = {}
    if kind == "alias-noise":
        from pulser.noise_model import NoiseModel

        specs = [dict(relaxation_rate=0.1), dict(eff_noise_rates=(0.1,), eff_noise_opers=(OP2,)), dict(p_false_pos=0.2, dephasing_rate=0.3)]
        make = lambda i: NoiseModel(**specs[i])  # noqa: E731
        rt = lambda o: NoiseModel.from_abstract_repr(o.to_abstract_repr())  # noqa: E731
    elif kind == "alias-device":
        from pulser.devices import VirtualDevice

        def make(i):
            chans, dmms, kw = _channels(["plain", "eom", "noise"][i])
            return VirtualDevice(name=f"D{i}", dimensions=2 + (i % 2), rydberg_level=60 + i, min_atom_distance=float(i), max_atom_num=None,
                                 max_radial_distance=None, channel_objects=chans, dmm_objects=dmms, supports_slm_mask=bool(dmms), **kw)

        rt = lambda o: VirtualDevice.from_abstract_repr(o.to_abstract_repr())  # noqa: E731
    elif kind in ("alias-layout", "alias-layout-same-traps"):
        # layouts through their PUBLIC codec; in the second family the three layouts have the same traps (equal and of equal hash by
        # the library's definition) and differ in slug / class only - each still comes back as itself, whatever was encoded before
        from pulser.register.register_layout import RegisterLayout
        from pulser.register.special_layouts import TriangularLatticeLayout

        tri = TriangularLatticeLayout(6, 5.0)
        same = kind.endswith("same-traps")

        def make(i):
            if same:
                return [RegisterLayout(tri.coords, slug="calibrated_2024"), RegisterLayout(tri.coords, slug="calibrated_2025"), RegisterLayout(tri.coords)][i]
            return [RegisterLayout([(0.0, 0.0), (5.0, 0.0), (0.0, 5.0)], slug="a"), RegisterLayout([(0.0, 0.0), (6.0, 0.0), (0.0, 6.0), (6.0, 6.0)], slug="a"),
                    RegisterLayout([(1.0, 0.0, 0.0), (0.0, 5.0, 5.0)])][i]

        def rt(o):
            b = RegisterLayout.from_abstract_repr(o.to_abstract_repr())
            if b.slug != o.slug or b != o or json.loads(o.to_abstract_repr()).get("slug") != o.slug:
                out.append((f"C17:layout-round-trip-depends-on-what-was-encoded-before:{'same-traps' if same else 'distinct'}",
                            f"order {order}: layout with slug {o.slug!r} is encoded as {o.to_abstract_repr()[:120]}"))
            return b
    else:
        from pulser import Register
        from pulser.json.abstract_repr.deserializer import deserialize_abstract_register

        make = lambda i: Register({f"q{j}": (float(j * (i + 1)), float(i)) for j in range(i + 2)})  # noqa: E731
        rt = lambda o: deserialize_abstract_register(o.to_abstract_repr())  # noqa: E731
    made = []
    for i in order:
        obj = make(i)
        made.append((obj, deep(obj)))
        back = rt(obj)
        made.append((back, deep(back)))
        for o, snap0 in made:
            if deep(o) != snap0:
                out.append((f"C17:instances-share-state:{kind[6:]}", f"order {order}: an earlier instance changed"))
    return out + [("@alias", "")]


def worker(case):
    with warnings.catch_warnings():
        warnings.simplefilter("ignore")
        k = case[0]
        if k == "noise":
            return check_noise(case[1], case[2])
        if k == "vdevice":
            return check_vdevice(case[1], case[2])
        if k == "device":
            return check_device(case[1])
        if k == "register":
            return check_register(*case[1:])
        if k == "detmap":
            return check_detmap(case[1], case[2])
        if k == "config":
            return check_config(*case[1:])
        if k == "config-flags":
            return check_config_flags(case[1], case[2])
        if k == "results":
            return check_results(case[1], case[2])
        return check_alias(k, case[1])


def run(tier, seed):
    res = Result("exploration")
    cs = noise_cases(tier) + device_cases(tier) + reg_cases(tier) + config_cases(tier)
    outs = gridx.run(worker, cs)
    classes = {}
    for c, r in zip(cs, outs):
        for fp, d in r:
            if fp.startswith("@"):
                classes[fp] = classes.get(fp, 0) + 1
            else:
                res.add(Violation(fp, d, {"engine": "grid", "case": repr(c)}))
    res.coverage = dict(
        evaluations=len(cs), distinct_nontrivial=len(cs) - classes.get("@device-not-constructible", 0) - classes.get("@config-not-constructible", 0),
        exhaustive=True, outcome_classes=classes,
        rule="noise models: every subset of the 7 noise types activated through each of their parameter variants (+ leakage); devices: "
             "12 optional fields each at default / non-default (all singles, all pairs, all together) x channel sets {plain, EOM with "
             "every optional field non-default, DMM, default noise model, custom channel ids} + 6 physical-device variants (calibrated "
             "layouts, noise model, filling limits, custom EOM, no DMM); registers 2D/3D x every atom order x 3 id sets x with/without "
             "layout; layouts; detuning maps with traps in every order through a sequence; emulation configs over observable sets x "
             "evaluation times x initial states x noise models; aliasing: every construction order of 3 instances of StateRepr / "
             "NoiseModel / VirtualDevice / Register interleaved with decoding, with a deep field snapshot of every earlier instance",
        samples=[repr(cs[i])[:200] for i in (0, len(cs) // 2, len(cs) - 1)])
    res.assumptions = ["equality is checked with == and field by field on a deep snapshot (tuples / lists normalised)"]
    return res


def replay(payload):
    from pulser.channels import DMM  # noqa: F401

    case = eval(payload["case"])
    return [Violation(fp, d, payload) for fp, d in worker(case) if not fp.startswith("@")]
