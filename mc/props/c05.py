"""C05 — the emulated Hamiltonian equals the documented formula (RefHam built from RefRender's view of the
timeline vs QutipEmulator.get_hamiltonian at every integer nanosecond of every explored program)."""
from __future__ import annotations

import itertools
import warnings

import numpy as np

from mc import alphabets as A
from mc import refham, refrender, seqx
from mc.evidence import Result
from mc.refsched import basis_of
from mc.worlds import corner

TOL = 1e-9


def world_situation(snap, world):
    worst_g = 0
    for basis in {basis_of(c.ch_id) for c in snap.channels.values()}:
        g = sum(1 for c in snap.channels.values() if basis_of(c.ch_id) == basis and not c.is_dmm
                and not world.params(c.ch_id)["local"] and any(s.kind == "pulse" for s in c.slots))
        worst_g = max(worst_g, g)
    return f"globals={min(worst_g, 2)}"


def ham(ctx):
    if ctx.exc is not None or not ctx.post.flags["building"]:
        return []
    snap, w = ctx.post, ctx.world
    if all(not c.slots for c in snap.channels.values()):
        return []
    T = max(c.end for c in snap.channels.values())
    if T == 0:
        return []
    from pulser_simulation import QutipEmulator

    out = []
    with warnings.catch_warnings():
        warnings.simplefilter("ignore")
        try:
            sim = QutipEmulator.from_sequence(ctx.seq)
        except Exception as e:
            return [(f"C05:emulator-raises:{type(e).__name__}", repr(e)[:200])]
        view, T = refrender.atom_view(snap, w)
        in_xy = bool(snap.flags["in_xy"])
        bases = [b for b in ("ground-rydberg", "digital", "XY") if b in view and
                 any(np.any(d[0] != 0) or np.any(d[1] != 0) for d in view[b].values())]
        pos = []
        for q in w.qids:
            p = w.register.qubits[q]
            pos.append(np.asarray(p.as_array() if hasattr(p, "as_array") else p, dtype=float))
        masked = set(snap.flags.get("slm_targets") or ())
        mask_end = refrender.slm_end(snap, w) if (in_xy and masked) else 0
        level = w.spec.get("rydberg_level", 60)
        exp_states = None
        worst = (0.0, None)
        herm = 0.0
        for t in range(T):
            H, exp_states = refham.hamiltonian(t, view, bases, pos, level=level, c3=3700.0, in_xy=in_xy, mag=snap.flags["mag"],
                                               masked=masked, mask_end=mask_end, qids=w.qids)
            Hi = sim.get_hamiltonian(t).full()
            if Hi.shape != H.shape:
                out.append((f"C05:dimension:{sim.basis_name}", f"emulator {Hi.shape} vs documented {H.shape} (states {exp_states})"))
                break
            d = float(np.abs(H - Hi).max())
            if d > worst[0]:
                worst = (d, t)
            herm = max(herm, float(np.abs(Hi - Hi.conj().T).max()))
        # the same emulator object after a history of configurations: once no local noise is configured any more, the
        # Hamiltonian is again the documented one with the PROGRAMMED values (nothing of an earlier noisy configuration stays)
        if not out and worst[0] <= TOL and herm <= 1e-12:
            ts = sorted({0, T // 3, T // 2, T - 1} | ({worst[1]} if worst[1] is not None else set()))
            for hist, d, t in _config_histories(sim, ts, lambda t: refham.hamiltonian(
                    t, view, bases, pos, level=level, c3=3700.0, in_xy=in_xy, mag=snap.flags["mag"], masked=masked, mask_end=mask_end,
                    qids=w.qids)[0], ctx):
                out.append((f"C05:hamiltonian-differs-after-configuration-history:{hist}", f"max |H_emu - H_doc| = {d:.6g} at t={t} ns"))
        ctx.act["programs_compared"] += 1
        ctx.act["times_compared"] += T
        if len(bases) > 1:
            ctx.act["programs_two_bases"] += 1
        if in_xy and masked and mask_end:
            ctx.act["programs_with_active_slm_mask"] += 1
        got_states = [s for s in ("r", "g", "h", "u", "d") if s in sim.basis]
        if exp_states is not None and list(sim.basis) != exp_states:
            out.append((f"C05:state-ordering:{sim.basis_name}", f"emulator basis {list(sim.basis)} vs documented {exp_states}"))
        if herm > 1e-12:
            out.append(("C05:not-hermitian", f"max |H - H^dagger| = {herm}"))
        if worst[0] > TOL:
            sit = world_situation(snap, w)
            if in_xy and masked and worst[1] is not None and abs(worst[1] - mask_end) <= 1:
                sit += ":at-slm-mask-end"
            out.append((f"C05:hamiltonian-differs:{'XY' if in_xy else 'ising'}:{sit}",
                        f"max |H_emu - H_doc| = {worst[0]:.6g} at t={worst[1]} ns (T={T}, bases {bases})"))
    return out


def _config_histories(sim, ts, ref, ctx):
    """[noisy configuration] then [a configuration without local noise] on one emulator; yields (history, diff, t) on a mismatch."""
    from pulser_simulation import SimConfig

    noisy = {"amplitude": dict(noise="amplitude", amp_sigma=0.3), "doppler": dict(noise="doppler", temperature=2000.0),
             "spam-eta": dict(noise="SPAM", eta=0.45, epsilon=0.0, epsilon_prime=0.0)}
    quiet = {"reset_config": None, "set_config-default": {}}
    Href = {t: ref(t) for t in ts}
    np.random.seed(20261003)  # the noisy configurations draw from numpy's global generator: same draws in every run and replay
    for (nn, nk), (qn, qk) in itertools.product(noisy.items(), quiet.items()):
        try:
            sim.set_config(SimConfig(runs=2, samples_per_run=1, **nk))
        except Exception:
            continue  # this noise is not available for the sequence's basis
        ctx.act["config_histories"] += 1
        if qk is None:
            sim.reset_config()
        else:
            sim.set_config(SimConfig(**qk))
        worst = (0.0, None)
        for t in ts:
            d = float(np.abs(Href[t] - sim.get_hamiltonian(t).full()).max())
            if d > worst[0]:
                worst = (d, t)
        if worst[0] > TOL:
            yield f"{nn}-then-{qn}", worst[0], worst[1]


MONITORS = [ham]

XYS = [("slm", ["q0"]), ("declare", "m", "mw_global"), ("declare", "n", "mw_global")]
XYT = [("magfield", 1.0, 2.0, 2.0), ("slm", ["q1"]), ("declare", "m", "mw_global")]
XYI = [("magfield", 0.0, 1.0, 0.0), ("declare", "m", "mw_global")]
PERM = {"q2": [3.0, 9.0], "q0": [0.0, 0.0], "q1": [8.0, 0.0]}
R3D = {"q1": [8.0, 0.0, 1.0], "q0": [0.0, 0.0, 0.0], "q2": [3.0, 9.0, -4.0]}
INTPERM = {"q0": 2, "q1": 0, "q2": 1}
STRPERM = {"q0": "z", "q1": "a", "q2": "m"}
SHORT = [("add", ["c", 20, 1.0, 0.5, 1.0], "m"), ("add", ["r", 24, 2.0, -1.0, 1.0, 0.3], "m", "no-delay"), ("delay", 16, "m")]


def plan(tier, seed):
    d = 2 if tier == "quick" else 3
    worlds = [
        (corner("real", prefix=A.GL, qubits=3), A.render(), d),
        (corner("unit8", prefix=A.GR, coords=PERM, name="unit8-samebasis-permuted-register", rydberg_level=70), A.render(l="r"), d),
        (corner("mixed", prefix=A.GLD, coords=R3D, name="mixed-dmm-3d", rydberg_level=50), A.render(dmm="dmm_0", eom=False), d),
        (corner("unit8", prefix=XYS, qubits=3, name="xy-slm-two-channels"), A.render(g="m", l=None, g2="n", eom=False), d),
        (corner("unit", prefix=XYT, qubits=3, name="xy-tilted-field-slm"), SHORT, d + 1),
        (corner("unit", prefix=XYT, coords=R3D, name="xy-tilted-field-3d"), SHORT, d),
        (corner("unit", prefix=XYI, qubits=3, name="xy-inplane-field"), SHORT, d),
        (corner("real", prefix=A.GG, qubits=2, name="real-two-globals", rydberg_level=100), A.render(l=None, g2="h"), d),
        (corner("unit8", prefix=A.DG, qubits=3, name="unit8-dmm-first"), A.render(l="r", dmm="dmm_0", eom=False), d),
        # four atoms, two of them masked and two not (pairs masked-masked, masked-unmasked and unmasked-unmasked all exist)
        (corner("unit", prefix=[("magfield", 1.0, 2.0, 0.5), ("slm", ["q1", "q3"]), ("declare", "m", "mw_global")],
                coords={"q0": [0.0, 0.0], "q1": [8.0, 0.0], "q2": [3.0, 9.0], "q3": [-6.0, 5.0]}, name="xy-four-atoms-two-masked"), SHORT, d),
        # Ising mode with an SLM mask (realised by a DMM): the van der Waals term stays on whatever the mask leaves unmasked
        (corner("unit8", prefix=[("slm", ["q0"]), ("declare", "g", "rydberg_global")], qubits=2, name="ising-slm-one-unmasked"),
         A.render(l=None, eom=False), d + 1),
        (corner("real", prefix=[("declare", "g", "rydberg_global"), ("declare", "r", "rydberg_local", "q0"), ("slm", ["q0", "q2"])],
                qubits=3, name="ising-slm-two-of-three"), A.render(l="r", eom=False), d),
        (corner("unit8", prefix=[("config_dmm", "m2", "dmm_0"), ("config_dmm", "m1", "dmm_0"), ("declare", "g", "rydberg_global")],
                qubits=3, name="two-maps-on-one-dmm-id"),
         A.render(l=None, dmm="dmm_0", eom=False) + [("add_dmm", ["C", 40, -0.75], "dmm_0_1", "no-delay")], d),
        # a spare Local channel declared first and never targeted (no slot at all) next to the channels that drive the atoms
        (corner("unit8", prefix=[("declare", "s", "rydberg_local")] + A.GR, qubits=3, name="unit8-spare-untargeted-channel-first"), A.render(l="r"), d),
        # qubit ids that are integers / strings whose sorted or index order differs from the register order
        (corner("unit8", prefix=A.GR, qubits=3, qid_alias=INTPERM, name="unit8-int-ids-out-of-order"), A.render(l="r"), d),
        (corner("unit", prefix=XYT, qubits=3, qid_alias=INTPERM, name="xy-int-ids-out-of-order"), SHORT, d),
        (corner("mixed", prefix=A.GLD, qubits=3, qid_alias=STRPERM, name="mixed-dmm-str-ids-out-of-order"),
         A.render(dmm="dmm_0", eom=False), d),
    ]
    return worlds


def run(tier, seed):
    res = Result("exploration")
    cov = seqx.run_plan(res, plan(tier, seed), MONITORS)
    cov["evaluations"] = res.activations.get("times_compared", 0)
    cov["distinct_nontrivial"] = res.activations.get("programs_compared", 0)
    cov["rule"] = ("every program reachable within the depth over the rendering alphabets on 8 worlds (two bases, global+local on one "
                   "basis, DMM with weights on a 3D register, XY with SLM mask and default / tilted / in-plane field, permuted atom "
                   "order, Rydberg levels 50/60/70/100); evaluations = (program, integer time) Hamiltonians compared; "
                   "distinct_nontrivial = programs (transitions with a non-empty timeline) compared")
    res.coverage = cov
    res.required_activations = ["programs_compared", "programs_two_bases", "programs_with_active_slm_mask"]
    res.assumptions = ["integer nanoseconds only (QuTiP interpolates array coefficients between samples)",
                       "Omega, delta, phi come from RefRender (scheduled pulses), not from the sampler"]
    return res


def replay(payload):
    return seqx.replay(payload, MONITORS)
