"""C16 — waveforms and pulses honour their defining contracts (exhaustive GridX over classes x durations x parameter values)."""
from __future__ import annotations

import itertools
import math
import warnings

import numpy as np

from mc import gridx
from mc.evidence import Result, Violation

VALS = [-2.0, -1e-3, 0.0, 1e-3, 1.0, 20.0]
DURS = [1, 2, 3, 4, 5, 10, 11, 100, 101]
SCALES = [-2.0, -1.0, 0.5, 1.0, 3.0]


def S(wf):
    return np.asarray(wf.samples.as_array(detach=True), dtype=float)


def close(a, b, rel=1e-9, ab=1e-12):
    a, b = np.asarray(a, dtype=float), np.asarray(b, dtype=float)
    return a.shape == b.shape and bool(np.all(np.abs(a - b) <= ab + rel * np.maximum(np.abs(a), np.abs(b))))


def build(spec):
    from mc.worlds import make_wf

    return make_wf(spec)


def cases(tier):
    out = []
    for D in DURS:
        for v in VALS:
            out.append(("wf", ["C", D, v]))
            out.append(("wf", ["B", D, v]))
            out.append(("wf", ["K", D, v]))
            out.append(("wf", ["K", D, v, 3.0]))
        for a, b in itertools.product(VALS, VALS):
            out.append(("wf", ["R", D, a, b]))
        for vals in ([0.0, 1.0], [1.0, -2.0, 20.0], [0.0, 1e-3, 1.0, 0.0], [-2.0, -2.0], [0.0, 0.0, 0.0], [0.0, 0.0], [1e-300, 0.0], [5e-324, -5e-324, 0.0]):
            out.append(("wf", ["I", D, vals]))
            out.append(("wf", ["I", D, vals, {"interpolator": "interp1d"}]))
        out.append(("wf", ["I", D, [0.0, 2.0, 1.0], {"times": [0.0, 0.5, 1.0]}]))
        out.append(("wf", ["I", D, [0.0, 2.0, 1.0], {"times": [0.0, 0.1, 1.0]}]))
        out.append(("wf", ["I", D, [0.0, 2.0, 1.0], {"times": [0.0, 0.999, 1.0]}]))
        out.append(("wf", ["X", [((-1) ** i) * 0.5 * i for i in range(D)]]))
        out.append(("wf", ["X", [0.0] * D]))  # all-zero waveforms of every class (a flat zero detuning, a waveform times 0)
        out.append(("wf", ["+", ["C", D, 0.0], ["R", max(1, D // 2), 0.0, 0.0]]))
        out.append(("wf", ["+", ["C", D, 1.0], ["R", max(1, D // 2), 0.0, 2.0], ["X", [3.0] * min(D, 3)]]))
    # ramps whose last sample is start + slope * (duration - 1) in floating point: every duration 2..80 x end values that are not dyadic,
    # rising and falling, from 0 and from an offset
    for D in range(2, 81 if tier == "quick" else 400):
        for v in (0.1, 0.3, math.pi, 12.34, 1e-3, 2 * math.pi / 3):
            out.append(("wf", ["R", D, 0.0, v]))
            out.append(("wf", ["R", D, v, 0.0]))
            out.append(("wf", ["R", D, -v, 0.7]))
            out.append(("wf", ["R", D, 0.7, -v]))
    # large values of both signs whose integral cancels (equality / algebra must not go through derived quantities)
    out.append(("wf", ["R", 500, -60.0, 60.0]))
    out.append(("wf", ["X", [1000.0, -1000.0]]))
    out.append(("wf", ["+", ["C", 40, 25.0], ["C", 40, -25.0]]))
    out.append(("wf", ["X", [((-1) ** i) * 300.0 for i in range(64)]]))
    areas = [0.1, 1.0, math.pi, 10.0, -0.1, -math.pi]
    maxes = [0.5, 1.0, 2.0, 10.0, 47.0]
    betas = [0.0, 3.0, 14.0]
    if tier == "thorough":
        areas += [0.01, 0.5, 2.0, 5.0, 25.0, -1.0, -10.0]
        maxes += [0.1, 3.0, 5.0, 20.0, 100.0]
    for area, mx in itertools.product(areas, maxes):
        out.append(("maxval", "B", area, math.copysign(mx, area), None))
        for beta in betas:
            out.append(("maxval", "K", area, math.copysign(mx, area), beta))
    # boundary max_val for EVERY target duration in a range: just above / just below the peak of the d-ns window
    hi = 260 if tier == "quick" else 700
    for d in range(17, hi):
        for kind, beta in (("B", None), ("K", 14.0), ("K", 6.0)):
            for sign in (1.0, -1.0) if d % 7 == 0 else (1.0,):
                out.append(("maxval-boundary", kind, d, beta, sign))
    out.append(("maxval", "B", 1.0, -1.0, None))  # mismatched signs must be refused
    out.append(("maxval", "K", -1.0, 1.0, 14.0))
    for ph, post in itertools.product([-7.0, -math.pi, -1e-12, 0.0, 1.0, 2 * math.pi, 7.0, 100.0], [0.0, -1.0, 7.0]):
        out.append(("pulse", ph, post))
    # phases next to whole numbers of turns (the float just below / at / just above k x 2 pi, both signs) and of very large magnitude:
    # the stored phase is the exact float remainder, inside [0, 2 pi)
    for k in (list(range(1, 130)) if tier == "quick" else list(range(1, 3001))):
        out.append(("phase-turns", k))
    out.append(("pulse-bad", "neg-amp"))
    out.append(("pulse-bad", "length"))
    out.append(("pulse-bad", "tiny-neg-amp"))
    for how in ("constant", "ramp", "custom-one-sample", "composite", "ConstantPulse", "ConstantAmplitude", "ConstantDetuning", "ArbitraryPhase"):
        for mag in (1.0, 1e-3, 1e-7, 9e-9, 5e-9, 1e-9, 1e-12, 1e-15, 1e-300, 5e-324):
            out.append(("pulse-bad", ("neg", how, mag)))
    for D in [1, 2, 3, 5, 16, 100]:
        for spec in (["C", D, 0.7], ["R", D, 0.0, 3.0], ["R", D, 2.0, -1.0], ["X", [0.3 * math.sin(i) for i in range(D)]],
                     ["I", D, [0.0, 1.0, -1.0]], ["B", D, 1.0]):
            out.append(("arbphase", spec))
    # long, NEARLY linear phases: the detuning is nearly uniform (sample-to-sample differences within 1e-5 relative of one another, the
    # tolerance of waveform equality) but not uniform - a slow chirp on a large carrier, two ramps whose slopes differ by parts per million
    for D in (2000, 4000):
        for omega, kappa in ((20.0, 2e-5), (-35.0, 1e-5), (5.0, 5e-6)):
            out.append(("arbphase", ["X", [-omega * i * 1e-3 + kappa * (i * 1e-3) ** 2 for i in range(D)]]))
        a = -0.02 * (D // 2)
        out.append(("arbphase", ["+", ["R", D // 2, 0.0, a], ["R", D // 2, a * (1 + 1.0 / (D // 2)), a * (1 + 1.0 / (D // 2)) + a * (1 + 4e-6)]]))
    return out


def check_wf(spec):
    out = []
    kind = spec[0]
    try:
        wf = build(spec)
        s = S(wf)
    except Exception as e:
        ok_to_refuse = False
        if kind == "I":
            D = spec[1]
            n = len(spec[2])
            times = (spec[3] or {}).get("times") if len(spec) > 3 else None
            t = np.round((np.array(times) if times else np.linspace(0, 1, n)) * (D - 1))
            ok_to_refuse = len(set(t.tolist())) < n  # interpolation points coincide after rounding: cannot be honoured
            if ok_to_refuse:
                return [("@interp-points-coincide", "")]
        return [(f"C16:construction-raises:{kind}:duration={spec[1] if kind != 'X' else len(spec[1])}", f"{spec}: {type(e).__name__}: {e}"[:200])]
    D = wf.duration
    tag = f"{kind}:duration={D if D <= 5 else 'n'}"
    if len(s) != D:
        out.append((f"C16:sample-count:{tag}", f"{spec}: {len(s)} samples"))
        return out
    if not np.all(np.isfinite(s)):
        out.append((f"C16:non-finite-samples:{tag}", f"{spec}: {s[:5]}"))
        return out
    # documented values
    if kind == "C":
        if not close(s, np.full(D, spec[2])):
            out.append((f"C16:constant-values:{tag}", f"{spec}"))
    elif kind == "R":
        a, b = spec[2], spec[3]
        exp = np.array([a]) if D == 1 else a + (b - a) * np.arange(D) / (D - 1)
        if not close(s, exp):
            out.append((f"C16:ramp-values:{tag}", f"{spec}: {s[:3]}..{s[-1]} vs {exp[:3]}..{exp[-1]}"))
        # a ramp goes FROM start TO stop: it starts exactly at `start` and no rounding takes a sample outside [start, stop] (a ramp up to a
        # channel's limit stays within the limit, a ramp down to 0 never turns negative)
        lo, hi = (a, b) if a <= b else (b, a)
        if s[0] != a:
            out.append((f"C16:ramp-first-sample:{tag}", f"{spec}: first sample {s[0]!r}, start {a!r}"))
        if float(np.min(s)) < lo or float(np.max(s)) > hi:
            i = int(np.argmax(np.maximum(s - hi, lo - s)))
            out.append((f"C16:ramp-leaves-its-range:{'rising' if a <= b else 'falling'}", f"{spec}: sample {i} is {s[i]!r}, outside [{lo!r}, {hi!r}]"))
    elif kind == "X":
        if not close(s, spec[1]):
            out.append((f"C16:custom-values:{tag}", f"{spec}"))
    elif kind == "+":
        exp = np.concatenate([S(build(x)) for x in spec[1:]])
        if not close(s, exp):
            out.append((f"C16:composite-values:{tag}", ""))
    elif kind == "I":
        vals = np.array(spec[2], dtype=float)
        kw = spec[3] if len(spec) > 3 else {}
        times = np.array(kw.get("times")) if kw.get("times") else np.linspace(0, 1, len(vals))
        idx = np.round(times * (D - 1)).astype(int)
        if len(set(idx.tolist())) < len(idx):
            return out + [("@interp-points-coincide", "")]
        if not close(s[idx], vals, rel=1e-9, ab=1e-9):
            out.append((f"C16:interpolated-values:{tag}", f"{spec}: at {idx.tolist()} got {s[idx].tolist()}"))
        lo, hi = vals.min(), vals.max()
        if kw.get("interpolator", "PchipInterpolator") == "PchipInterpolator" and (s.min() < lo - 1e-9 or s.max() > hi + 1e-9):
            out.append((f"C16:interpolated-overshoot:{tag}", f"{spec}: range {s.min()}..{s.max()}"))
    elif kind in ("B", "K"):
        area = spec[2]
        if not math.isclose(float(np.sum(s)) * 1e-3, area, rel_tol=1e-9, abs_tol=1e-12):
            out.append((f"C16:window-area:{tag}", f"{spec}: integral {np.sum(s) * 1e-3}"))
        if area > 0 and s.min() < 0 or area < 0 and s.max() > 0:
            out.append((f"C16:window-sign:{tag}", f"{spec}"))
        if not close(s, s[::-1], rel=1e-9, ab=1e-9):
            out.append((f"C16:window-asymmetric:{tag}", f"{spec}"))
        if not math.isclose(wf.integral, area, rel_tol=1e-9, abs_tol=1e-12):
            out.append((f"C16:integral-property:{tag}", f"{wf.integral} vs {area}"))
    if not (math.isclose(wf.first_value, s[0]) and math.isclose(wf.last_value, s[-1])):
        out.append((f"C16:first-last:{tag}", ""))
    # change_duration keeps the defining parameters
    for Dn in (D + 1, 2 * D + 3):
        try:
            w2 = wf.change_duration(Dn)
        except NotImplementedError:
            if kind not in ("X", "+"):
                out.append((f"C16:change-duration-not-implemented:{kind}", ""))
            break
        spec2 = list(spec)
        spec2[1] = Dn
        try:
            exp2 = S(build(spec2))
        except Exception:
            break
        if not np.all(np.isfinite(exp2)):
            break
        if w2.duration != Dn or not close(S(w2), exp2):
            out.append((f"C16:change-duration:{kind}", f"{spec} -> {Dn}"))
        if type(w2) is not type(wf):
            out.append((f"C16:change-duration-type:{kind}", type(w2).__name__))
    # algebra
    for k in SCALES:
        for name, f in (("mul", lambda: wf * k), ("div", lambda: wf / k)):
            r = f()
            exp = s * k if name == "mul" else s / k
            # interpolated waveforms round their samples to 9 decimals: allow that much
            if r.duration != D or not close(S(r), exp, rel=1e-9, ab=2e-9 * max(1.0, abs(k), 1 / abs(k))):
                out.append((f"C16:algebra-{name}:{kind}", f"{spec} {name} {k}"))
    if not close(S(-wf), -s):
        out.append((f"C16:algebra-neg:{kind}", f"{spec}"))
    try:
        wf / 0
        out.append((f"C16:division-by-zero-accepted:{kind}", ""))
    except ZeroDivisionError:
        pass
    # equality agrees with sample-wise closeness
    from pulser.waveforms import CustomWaveform

    same = CustomWaveform(s.copy())
    if not (wf == same and same == wf):
        out.append((f"C16:eq-same-samples:{kind}", f"{spec}"))
    if D >= 1:
        other = s.copy()
        other[D // 2] += 1.0
        if wf == CustomWaveform(other):
            out.append((f"C16:eq-different-samples:{kind}", f"{spec}"))
    if D > 1 and wf == CustomWaveform(s[:-1]):
        out.append((f"C16:eq-different-duration:{kind}", f"{spec}"))
    # ... on both sides of the closeness tolerance (numpy.isclose: 1e-8 + 1e-5 |value|), for one sample and for whole
    # families of samples (all, the positive ones, the negative ones): inside => equal, outside => different
    tol = 1e-8 + 1e-5 * np.abs(s)
    k = int(np.argmax(np.abs(s)))
    near = {"one-sample": s.copy(), "all-samples": s + 0.4 * tol, "positive-samples": np.where(s > 0, s + 0.4 * tol, s),
            "negative-samples": np.where(s < 0, s - 0.4 * tol, s), "alternating": s + 0.4 * tol * np.where(np.arange(D) % 2, 1.0, -1.0)}
    near["one-sample"][k] += 0.4 * tol[k]
    for what, arr in near.items():
        o = CustomWaveform(arr)
        if not (wf == o and o == wf):
            out.append((f"C16:eq-close-samples-unequal:{what}", f"{spec}: every sample within 0.4 x tolerance, max |diff| {np.abs(arr - s).max():.3g}, "
                        f"integrals {wf.integral:.6g} vs {o.integral:.6g}"))
    far = s.copy()
    far[k] += 3 * tol[k]
    o = CustomWaveform(far)
    if wf == o or o == wf:
        out.append((f"C16:eq-sample-outside-tolerance-equal:{kind}", f"{spec}: sample {k} differs by 3 x tolerance"))
    # indices and slices
    if D <= 5:
        for i in range(-D - 1, D + 1):
            try:
                v = float(wf[i])
                if not (-D <= i < D) or not math.isclose(v, s[i]):
                    out.append((f"C16:index:{kind}", f"{spec}[{i}]"))
            except IndexError:
                if -D <= i < D:
                    out.append((f"C16:index-refused:{kind}", f"{spec}[{i}]"))
        for a, b in itertools.product([None] + list(range(-D - 1, D + 2)), repeat=2):
            got = np.asarray(wf[a:b].as_array(detach=True) if hasattr(wf[a:b], "as_array") else wf[a:b], dtype=float)
            if not close(got, s[a:b]):
                out.append((f"C16:slice:{kind}", f"{spec}[{a}:{b}]"))
    return out


def check_maxval(kind, area, mx, beta):
    from pulser.waveforms import BlackmanWaveform, KaiserWaveform

    out = []
    tag = f"{kind}"
    try:
        wf = BlackmanWaveform.from_max_val(mx, area) if kind == "B" else KaiserWaveform.from_max_val(mx, area, beta)
    except ValueError as e:
        if (mx > 0) != (area > 0):
            return [("@sign-mismatch-refused", "")]
        return [(f"C16:from-max-val-raises:{tag}", f"area {area}, max {mx}: {e}")]
    if (mx > 0) != (area > 0):
        return [(f"C16:from-max-val-sign-mismatch-accepted:{tag}", f"area {area}, max {mx}")]
    s = S(wf)
    D = wf.duration
    if not np.all(np.isfinite(s)) or len(s) != D:
        return [(f"C16:from-max-val-samples:{tag}", f"area {area}, max {mx}")]
    if np.max(np.abs(s)) > abs(mx) * (1 + 1e-12):
        out.append((f"C16:from-max-val-exceeds:{tag}", f"area {area}, max {mx}: peak {np.max(np.abs(s))} (duration {D})"))
    if not math.isclose(float(np.sum(s)) * 1e-3, area, rel_tol=1e-9):
        out.append((f"C16:from-max-val-area:{tag}", f"area {area}, max {mx}: integral {np.sum(s) * 1e-3}"))
    if D > 16:
        shorter = BlackmanWaveform(D - 1, area) if kind == "B" else KaiserWaveform(D - 1, area, beta)
        if np.max(np.abs(S(shorter))) <= abs(mx) * (1 - 1e-12):
            # documented odd/even irregularity: D-1 may fit when D-2 does not; accept if some shorter one in {D-1} is the only exception
            out.append((f"C16:from-max-val-not-tight:{tag}", f"area {area}, max {mx}: duration {D} chosen, {D - 1} ns peaks at {np.max(np.abs(S(shorter)))}"))
    return out


def check_maxval_boundary(kind, d, beta, sign):
    """max_val placed just above the peak of the d-ns window of area pi: from_max_val must then return a window that is
    within max_val and tight; placed just below: the result must be longer than d."""
    from pulser.waveforms import BlackmanWaveform, KaiserWaveform

    area = sign * math.pi
    mk = (lambda D: BlackmanWaveform(D, area)) if kind == "B" else (lambda D: KaiserWaveform(D, area, beta))
    pk = float(np.max(np.abs(S(mk(d)))))
    out = []
    for side, mx in (("above", pk * (1 + 1e-7)), ("below", pk * (1 - 1e-7))):
        wf = BlackmanWaveform.from_max_val(sign * mx, area) if kind == "B" else KaiserWaveform.from_max_val(sign * mx, area, beta)
        s = S(wf)
        D = wf.duration
        tag = f"{kind}:{'even' if d % 2 == 0 else 'odd'}-target"
        if np.max(np.abs(s)) > mx * (1 + 1e-12):
            out.append((f"C16:from-max-val-exceeds:{tag}", f"target {d} ns ({side}): duration {D} peaks at {np.max(np.abs(s))} > {mx}"))
        if not math.isclose(float(np.sum(s)) * 1e-3, area, rel_tol=1e-9):
            out.append((f"C16:from-max-val-area:{tag}", f"target {d} ns ({side})"))
        if float(np.max(np.abs(S(mk(D - 1))))) <= mx * (1 - 1e-12):
            out.append((f"C16:from-max-val-not-tight:{tag}", f"max_val just {side} the peak of the {d} ns window: duration {D} chosen although {D - 1} ns also fits"))
    return out


def _exact_mod_2pi(x):
    from fractions import Fraction

    m = Fraction(2 * np.pi)
    r = Fraction(x) % m  # exact; a float remainder of two floats is itself representable
    return float(r)


def check_phase_turns(k):
    from pulser import Pulse
    from pulser.waveforms import ConstantWaveform, RampWaveform

    out = []
    t = k * 2 * np.pi
    big = [float(np.ldexp(1.0 + k / 4096.0, e)) for e in (50, 53, 59, 70)] if k % 8 == 0 else []
    xs = [np.nextafter(t, -np.inf), t, np.nextafter(t, np.inf), -np.nextafter(t, -np.inf), -t, -np.nextafter(t, np.inf)] + big + [-b for b in big]
    amp, det = ConstantWaveform(10, 1.0), RampWaveform(10, -1.0, 1.0)
    makers = {
        "Pulse": lambda x: Pulse(amp, det, x),
        "ConstantPulse": lambda x: Pulse.ConstantPulse(10, 1.0, 0.0, x),
        "ConstantDetuning": lambda x: Pulse.ConstantDetuning(amp, 0.0, x),
        "ConstantAmplitude": lambda x: Pulse.ConstantAmplitude(1.0, det, x),
        "post_phase_shift": lambda x: Pulse(amp, det, 0.0, post_phase_shift=x),
    }
    for x in xs:
        x = float(x)
        want = _exact_mod_2pi(x)
        for name, mk in makers.items():
            try:
                p = mk(x)
            except Exception as e:
                out.append((f"C16:phase-refused:{name}", f"phase {x!r}: {e!r}"[:200]))
                continue
            got = float(p.post_phase_shift if name == "post_phase_shift" else p.phase)
            kind = "large" if abs(x) > 1e12 else "next-to-whole-turns"
            if not (0 <= got < 2 * np.pi):
                out.append((f"C16:phase-outside-[0,2pi):{name}:{kind}", f"phase {x!r} stored as {got!r}"))
            elif got != want:
                out.append((f"C16:phase-is-not-the-remainder:{name}:{kind}", f"phase {x!r} stored as {got!r}, exact remainder {want!r}"))
    return out + [("@phase-turns", "")]


def check_pulse(ph, post):
    from pulser import Pulse
    from pulser.waveforms import ConstantWaveform, RampWaveform

    out = []
    p = Pulse(ConstantWaveform(10, 1.0), RampWaveform(10, -1.0, 1.0), ph, post_phase_shift=post)
    phase = float(p.phase)
    if not (0 <= phase < 2 * math.pi):
        out.append(("C16:pulse-phase-range", f"phase {ph} stored as {phase}"))
    d = (phase - ph) % (2 * math.pi)
    if min(d, 2 * math.pi - d) > 1e-9:
        out.append(("C16:pulse-phase-value", f"phase {ph} stored as {phase}"))
    if float(p.post_phase_shift) != post and not math.isclose(float(p.post_phase_shift) % (2 * math.pi), post % (2 * math.pi)):
        out.append(("C16:pulse-post-phase-shift", f"{post} stored as {p.post_phase_shift}"))
    if p.duration != 10:
        out.append(("C16:pulse-duration", ""))
    return out


def check_pulse_bad(which):
    from pulser import Pulse
    from pulser.waveforms import ConstantWaveform, RampWaveform

    if isinstance(which, (list, tuple)) and which[0] == "neg":
        # a strictly negative amplitude sample of ANY magnitude (down to the smallest denormal) through every constructor
        _, how, mag = which
        from pulser.waveforms import CompositeWaveform, CustomWaveform

        mk = {
            "constant": lambda: Pulse(ConstantWaveform(52, -mag), ConstantWaveform(52, 0.0), 0.0),
            "ramp": lambda: Pulse(RampWaveform(52, 1.0, -mag), ConstantWaveform(52, 0.0), 0.0),
            "custom-one-sample": lambda: Pulse(CustomWaveform([1.0] * 20 + [-mag] + [1.0] * 31), ConstantWaveform(52, 0.0), 0.0),
            "composite": lambda: Pulse(CompositeWaveform(ConstantWaveform(26, 1.0), ConstantWaveform(26, -mag)), ConstantWaveform(52, 0.0), 0.0),
            "ConstantPulse": lambda: Pulse.ConstantPulse(52, -mag, 0.0, 0.0),
            "ConstantAmplitude": lambda: Pulse.ConstantAmplitude(-mag, RampWaveform(52, 0.0, 1.0), 0.0),
            "ConstantDetuning": lambda: Pulse.ConstantDetuning(RampWaveform(52, -mag, 1.0), 0.0, 0.0),
            "ArbitraryPhase": lambda: Pulse.ArbitraryPhase(ConstantWaveform(52, -mag), RampWaveform(52, 0.0, 1.0)),
        }[how]
        try:
            p = mk()
        except (ValueError, TypeError):
            return []
        amp = S(p.amplitude)
        if np.any(amp < 0):
            return [(f"C16:pulse-with-negative-amplitude-accepted:{how}", f"magnitude {mag:g}: minimum amplitude sample {amp.min():g}")]
        return []
    try:
        if which == "neg-amp":
            Pulse(RampWaveform(10, 1.0, -1.0), ConstantWaveform(10, 0.0), 0.0)
        elif which == "tiny-neg-amp":
            Pulse(ConstantWaveform(10, -1e-3), ConstantWaveform(10, 0.0), 0.0)
        else:
            Pulse(ConstantWaveform(10, 1.0), ConstantWaveform(11, 0.0), 0.0)
    except (ValueError, TypeError):
        return []
    return [(f"C16:invalid-pulse-accepted:{which}", "")]


def check_arbphase(spec):
    """Pulse.ArbitraryPhase reproduces the phase waveform at every sample through detuning and offset."""
    from pulser import Pulse
    from pulser.sampler.samples import ChannelSamples, _PulseTargetSlot
    from pulser.waveforms import ConstantWaveform
    import pulser.math as pm

    try:
        phase_wf = build(spec)
        ps = S(phase_wf)
    except Exception:
        return [("@unbuildable", "")]
    if not np.all(np.isfinite(ps)):
        return [("@unbuildable", "")]
    D = phase_wf.duration
    try:
        p = Pulse.ArbitraryPhase(ConstantWaveform(D, 1.0), phase_wf)
        for post in (0.7, -1.1, 7.0):  # the other arguments of the constructor are kept
            q = Pulse.ArbitraryPhase(ConstantWaveform(D, 1.0), phase_wf, post_phase_shift=post)
            if abs((float(q.post_phase_shift) - post + math.pi) % (2 * math.pi) - math.pi) > 1e-12 or not (q.amplitude == p.amplitude) \
                    or not (q.detuning == p.detuning) or abs(float(q.phase) - float(p.phase)) > 1e-12:
                return [(f"C16:arbitrary-phase-drops-an-argument:{spec[0]}:duration={D if D <= 5 else 'n'}",
                         f"{spec}: post_phase_shift={post} became {float(q.post_phase_shift)}")]
    except Exception as e:
        return [(f"C16:arbitrary-phase-raises:{spec[0]}:duration={D if D <= 5 else 'n'}", f"{spec}: {e!r}"[:200])]
    det = S(p.detuning)
    # independent reconstruction from the documented relation (detuning = -d(phase)/dt, the pulse's phase is the offset that makes the
    # first sample right): phi[t] = phase_c - 1e-3 * sum(det[0..t])
    rec = float(p.phase) - 1e-3 * np.cumsum(det)
    d0 = (rec - ps + math.pi) % (2 * math.pi) - math.pi
    if np.max(np.abs(d0)) > 1e-7:
        t = int(np.argmax(np.abs(d0)))
        return [(f"C16:arbitrary-phase-not-reproduced-by-its-detuning:{spec[0]}:duration={D if D <= 5 else 'n'}",
                 f"{str(spec)[:80]}: at sample {t} the phase rebuilt from the detuning is off by {d0[t]:.3g} rad")]
    cs = ChannelSamples(pm.AbstractArray(np.ones(D)), pm.AbstractArray(det), pm.AbstractArray(np.full(D, float(p.phase))),
                        [_PulseTargetSlot(0, D, {"q0"})])
    got = np.asarray(cs.phase_modulation.as_array(detach=True), dtype=float)
    diff = (got - ps + math.pi) % (2 * math.pi) - math.pi
    if np.max(np.abs(diff)) > 1e-9:
        t = int(np.argmax(np.abs(diff) > 1e-9))
        return [(f"C16:arbitrary-phase-not-reproduced:{spec[0]}:duration={D if D <= 5 else 'n'}", f"{spec}: at sample {t} phase {got[t]} vs {ps[t]}")]
    return []



# ---- waveform / pulse objects under histories of accesses --------------------------------------------------------------
# A waveform is a value: every history of <= DEPTH steps (uses of the public API, and the caller editing what it owns - its
# constructor arguments and the arrays the accessors handed out) on ONE object must leave it indistinguishable from a
# pristine object built from copies of the original arguments.
W_OBJS = ["custom", "interp", "interp-times", "composite", "blackman", "ramp"]
W_OPS = ["edit-input", "samples-edit", "integral", "modulated-edit", "slice-edit", "scale", "negate", "change-duration", "eq-hash-repr",
         "in-pulse"]


def whist_cases(tier):
    depth = 3 if tier == "quick" else 4
    out = []
    for obj in W_OBJS:
        for d in range(1, depth + 1):
            for h in itertools.product(range(len(W_OPS)), repeat=d):
                out.append(("whist", obj, h))
    return out


def _w_build(obj, args):
    from pulser.waveforms import BlackmanWaveform, CompositeWaveform, ConstantWaveform, CustomWaveform, InterpolatedWaveform, RampWaveform

    if obj == "custom":
        return CustomWaveform(args["buf"])
    if obj == "interp":
        return InterpolatedWaveform(40, args["vals"])
    if obj == "interp-times":
        return InterpolatedWaveform(40, args["vals"], times=args["times"])
    if obj == "composite":
        return CompositeWaveform(CustomWaveform(args["buf"]), ConstantWaveform(10, 2.0))
    if obj == "blackman":
        return BlackmanWaveform(40, 1.5)
    return RampWaveform(40, -1.0, 3.0)


def _w_args():
    return {"buf": np.array([0.0, 1.0, -2.0, 3.0, 0.5, 0.25, 4.0, -1.0] * 2), "vals": np.array([0.0, 1.0, -0.5, 0.25]),
            "times": np.array([0.0, 0.2, 0.7, 1.0])}


def _w_facts(wf):
    s = S(wf)
    f = dict(samples=tuple(np.round(s, 12).tolist()), duration=wf.duration, integral=round(float(wf.integral), 12),
             first=round(float(wf.first_value), 12), last=round(float(wf.last_value), 12))
    # what is DERIVED from the object now (re-reads its defining parameters): other duration, scaling, negation
    try:
        f["change_duration"] = tuple(np.round(S(wf.change_duration(wf.duration + 4)), 9).tolist())
    except NotImplementedError:
        f["change_duration"] = None
    f["scaled"] = tuple(np.round(S(wf * 2.0), 9).tolist())
    f["negated"] = tuple(np.round(S(-wf), 9).tolist())
    f["repr"] = repr(wf)[:200]
    return f


def check_whist(obj, h):
    from pulser import Pulse
    from pulser.channels import Rydberg

    ch = Rydberg.Global(None, None, mod_bandwidth=8.0, max_duration=None)
    ref = _w_build(obj, _w_args())
    want = _w_facts(ref)
    args = _w_args()
    wf = _w_build(obj, args)
    names = [W_OPS[i] for i in h]
    out = []
    for k, name in enumerate(names):
        try:
            if name == "edit-input":
                args["buf"][1] += 50.0
                args["vals"][1] += 9.0
                args["times"][1] = 0.5
            elif name == "samples-edit":
                x = wf.samples
                np.asarray(x.as_array() if hasattr(x, "as_array") else x)[...] = 7.0
            elif name == "integral":
                wf.integral
            elif name == "modulated-edit":
                x = wf.modulated_samples(ch)
                np.asarray(x.as_array() if hasattr(x, "as_array") else x)[...] = 7.0
            elif name == "slice-edit":
                # reading only: whether wf[a:b] is a view of the samples is not promised either way (numpy slicing semantics)
                x = wf[1:5]
                float(np.sum(np.asarray(x.as_array() if hasattr(x, "as_array") else x)))
            elif name == "scale":
                wf * 2.0
                wf / 4.0
            elif name == "negate":
                -wf
            elif name == "change-duration":
                try:
                    wf.change_duration(wf.duration + 4)
                except NotImplementedError:
                    pass
            elif name == "eq-hash-repr":
                wf == ref
                hash(wf)
                repr(wf)
                str(wf)
            elif name == "in-pulse":
                p = Pulse.ConstantDetuning(wf, 0.0, 0.0) if np.all(S(wf) >= 0) else Pulse.ConstantAmplitude(1.0, wf, 0.0)
                p.fall_time(ch)
                x = p.amplitude.samples
                np.asarray(x.as_array() if hasattr(x, "as_array") else x)[...] = 3.0
        except Exception as e:
            out.append((f"C16:object-history:step-raises:{obj}:{name}:{type(e).__name__}", f"after {names[:k]}: {e}"[:200]))
            break
        got = _w_facts(wf)
        bad = sorted(f for f in want if got[f] != want[f])
        if not (wf == ref and ref == wf) and not bad:
            bad = ["equality"]
        if bad:
            edited = "after-editing-own-argument:" if "edit-input" in names[: k + 1] else ""
            out.append((f"C16:object-history:{obj}:{'+'.join(bad)}:{edited}at:{name}",
                        f"{obj} waveform after {names[: k + 1]} differs from a pristine one in {bad}: samples {got['samples'][:4]} vs {want['samples'][:4]}"))
            break
    return out + [("@whist", "")]


def worker(case):
    with warnings.catch_warnings():
        warnings.simplefilter("ignore")
        np.seterr(all="ignore")
        k = case[0]
        fn = {"wf": lambda: check_wf(case[1]), "whist": lambda: check_whist(case[1], tuple(case[2])), "maxval": lambda: check_maxval(*case[1:]),
              "maxval-boundary": lambda: check_maxval_boundary(*case[1:]), "pulse": lambda: check_pulse(*case[1:]), "phase-turns": lambda: check_phase_turns(case[1]),
              "pulse-bad": lambda: check_pulse_bad(case[1]), "arbphase": lambda: check_arbphase(case[1])}.get(k)
        if fn is None:
            return []  # unknown kind: reported by the vacuity guard of gridx.run
        r = fn()
        return r if r else [("@" + k, "")]


def run(tier, seed):
    res = Result("exploration")
    cs = cases(tier) + whist_cases(tier)
    outs = gridx.run(worker, cs, chunksize=16)
    classes = {}
    for case, r in zip(cs, outs):
        for fp, d in r:
            if fp.startswith("@"):
                classes[fp] = classes.get(fp, 0) + 1
            else:
                res.add(Violation(fp, d, {"engine": "grid", "case": list(case)}))
    res.coverage = dict(evaluations=len(cs), distinct_nontrivial=len(cs) - classes.get("@unbuildable", 0), exhaustive=True,
                        outcome_classes=classes,
                        rule="full products: waveform class x duration {1,2,3,4,5,10,11,100,101} x parameter values {-2,-1e-3,0,1e-3,1,20} "
                             "(ramps: all pairs), interpolated point sets / explicit times / both interpolators, from_max_val area x "
                             "max_val x beta of both signs, all indices and slices for durations <= 5, 5 scalings and division, pulse "
                             "phases incl. negative and > 2 pi, arbitrary-phase waveforms; every case is distinct by construction",
                        samples=[list(map(str, cs[i])) for i in (0, len(cs) // 3, len(cs) - 1)])
    res.assumptions = ["from_max_val tightness is skipped for windows of 16 ns or less (documented irregularity of short windows)",
                       "interpolated waveforms whose points coincide after rounding to whole nanoseconds may be refused"]
    return res


def replay(payload):
    case = payload["case"]
    return [Violation(fp, d, payload) for fp, d in worker(tuple(case)) if not fp.startswith("@")]
