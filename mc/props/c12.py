"""C12 — a device accepts exactly the registers and layouts that fit its geometry (exhaustive boundary grid,
exact rational oracle)."""
from __future__ import annotations

import itertools
import math
import warnings
from fractions import Fraction

import numpy as np

from mc import gridx
from mc.evidence import Result, Violation

E = 1e-3
D, R = 4.0, 10


def F(x):
    return Fraction(x)  # exact value of the float


def device_specs(tier):
    out = []
    for dims, maxn, dmin, rmax in itertools.product([2, 3], [None, 3], [0.0, D], [None, R]):
        out.append(dict(dimensions=dims, max_atom_num=maxn, min_atom_distance=dmin, max_radial_distance=rmax))
    return out


def make_device(spec, **extra):
    from pulser.channels import Rydberg
    from pulser.devices import VirtualDevice

    kw = dict(name="G", rydberg_level=60, channel_objects=(Rydberg.Global(None, None),))
    kw.update(spec)
    kw.update(extra)
    return VirtualDevice(**kw)


def register_cases(tier):
    """Coordinate lists (exactly representable) probing each geometric limit."""
    regs = []
    # pair distance along x and along a 3-4-5 direction (0.6 d, 0.8 d)
    for dd in (D - E, D - 5e-7, D, D + E, 0.0, 1e-7, 2e-6):
        regs.append([(0.0, 0.0), (dd, 0.0)])
        regs.append([(0.0, 0.0), (0.6 * dd, 0.8 * dd)])
        regs.append([(1.0, 1.0), (1.0 + dd, 1.0), (1.0, 1.0 + D + 1.0)])  # third atom far enough
        regs.append([(0.0, 0.0), (D + 1.0, 0.0), (D + 1.0, dd)])  # violating pair is (1, 2)
    # radius: 3-4-5 multiples of R
    for rr in (R - E, R, R + E):
        regs.append([(rr, 0.0)])
        regs.append([(0.6 * rr, 0.8 * rr)])
        regs.append([(0.0, 0.0), (0.6 * rr, -0.8 * rr)])
        regs.append([(0.0, rr), (-rr, 0.0), (0.0, 0.0)])
    # counts
    regs.append([(0.0, 0.0), (5.0, 0.0), (0.0, 5.0)])
    regs.append([(0.0, 0.0), (5.0, 0.0), (0.0, 5.0), (5.0, 5.0)])
    # 3D registers
    for dd in (D - E, D, D + E):
        regs.append([(0.0, 0.0, 0.0), (0.0, 0.0, dd)])
    regs.append([(0.0, 0.0, R + E)])
    regs.append([(0.0, 6.0, 8.0)])
    out = []
    for coords in regs:
        perms = itertools.permutations(range(len(coords))) if len(coords) <= 3 else [tuple(range(len(coords)))]
        for p in perms:
            out.append([coords[i] for i in p])
    return out


def expected(dev, coords, kind="atoms"):
    """(verdict, bad_pairs, bad_radius) by exact rational arithmetic. verdict None = don't-care band."""
    n = len(coords)
    dim = len(coords[0])
    if dim > dev["dimensions"]:
        return False, None, None, "dimension"
    care = True
    why = []
    if kind == "atoms" and dev["max_atom_num"] is not None and n > dev["max_atom_num"]:
        why.append("count")
    bad_pairs, band_pairs = [], []
    d2 = F(dev["min_atom_distance"]) ** 2
    lo2 = (F(dev["min_atom_distance"]) - F(10) ** -6) ** 2 if dev["min_atom_distance"] > 0 else None
    for i, j in itertools.combinations(range(n), 2):
        s = sum((F(a) - F(b)) ** 2 for a, b in zip(coords[i], coords[j]))
        if s == 0:
            bad_pairs.append((i, j))
        elif s < (F(10) ** -6) ** 2:
            band_pairs.append((i, j))  # closer than the coordinate precision: don't care
        elif s < d2:
            if lo2 is not None and s > lo2:
                band_pairs.append((i, j))
            else:
                bad_pairs.append((i, j))
    if bad_pairs:
        why.append("distance")
    bad_r = []
    if dev["max_radial_distance"] is not None:
        r2 = F(dev["max_radial_distance"]) ** 2
        for i, c in enumerate(coords):
            s = sum(F(a) ** 2 for a in c)
            if s > r2:
                # float norm may round a value within 1 ulp of R: don't care if |s - r2| tiny
                if s - r2 < r2 * F(10) ** -14:
                    care = False
                else:
                    bad_r.append(i)
            elif r2 - s < r2 * F(10) ** -14 and s != r2:
                care = False
    if bad_r:
        why.append("radius")
    if band_pairs and not why:
        care = False
    verdict = (not why) if care or why else None
    return verdict, bad_pairs, bad_r, ",".join(why) or "fits"


def check_register(case):
    from pulser import Register, Register3D
    from pulser.exceptions.sequence import DistanceError, RadiusError

    dspec, coords = case
    out = []
    with warnings.catch_warnings():
        warnings.simplefilter("ignore")
        dev = make_device(dspec)
        ids = [f"a{i}" for i in range(len(coords))]
        cls = Register3D if len(coords[0]) == 3 else Register
        try:
            reg = cls(dict(zip(ids, coords)))
        except Exception as e:
            return [("@register-unbuildable", "")]
        verdict, bad_pairs, bad_r, why = expected(dspec, coords)
        # the verdict does not depend on how the atoms are NAMED: integer ids, and integer / string ids that print alike (1 and "1")
        for kind, alt in (("int", list(range(len(coords)))), ("int-and-str-alike", [(i // 2 + 1) if i % 2 == 0 else str(i // 2 + 1) for i in range(len(coords))])):
            try:
                areg = cls(dict(zip(alt, coords)))
            except Exception:
                continue
            for how in ("validate", "sequence"):
                try:
                    if how == "validate":
                        dev.validate_register(areg)
                    else:
                        from pulser import Sequence

                        Sequence(areg, dev)
                    ok = True
                except Exception:
                    ok = False
                if verdict is not None and ok != verdict:
                    out.append((f"C12:verdict-depends-on-the-qubit-ids:{kind}:{'accepted' if ok else 'refused'}:{why}", f"{coords} named {alt} on {dspec} ({how})"[:250]))
        for how in ("validate", "sequence"):
            try:
                if how == "validate":
                    dev.validate_register(reg)
                else:
                    from pulser import Sequence

                    Sequence(reg, dev)
                ok, err = True, None
            except Exception as e:
                ok, err = False, e
            tag = f"{why}:{how}"
            if verdict is True and not ok:
                out.append((f"C12:fitting-register-refused:{type(err).__name__}", f"{coords} on {dspec}: {err}"[:250]))
            elif verdict is False and ok:
                out.append((f"C12:misfit-register-accepted:{why}", f"{coords} on {dspec}"[:250]))
            elif verdict is False and not ok:
                if isinstance(err, DistanceError) and "count" not in why:
                    got = sorted(tuple(sorted((ids.index(a), ids.index(b)))) for a, b in err.invalid)
                    if got != sorted(bad_pairs) and "distance" in why:
                        # pairs in the don't-care band may or may not be listed
                        _, _, _, _ = 0, 0, 0, 0
                        band_ok = set(map(tuple, bad_pairs)) <= set(got)
                        extra = set(got) - set(map(tuple, bad_pairs))
                        ex_bad = [p for p in extra if not _in_band(dspec, coords, p)]
                        if not band_ok or ex_bad:
                            out.append(("C12:offending-pairs", f"{coords} on {dspec}: reported {got}, violating {sorted(bad_pairs)}"[:250]))
                if isinstance(err, RadiusError) and why == "radius":
                    got = sorted(ids.index(a) for a in err.invalid)
                    if got != sorted(bad_r):
                        out.append(("C12:offending-atoms-radius", f"{coords} on {dspec}: reported {got}, violating {sorted(bad_r)}"[:250]))
        out.append(("@" + ("dontcare" if verdict is None else ("fits" if verdict else "misfit:" + why)), ""))
    return out


def _in_band(dspec, coords, pair):
    i, j = pair
    s = sum((F(a) - F(b)) ** 2 for a, b in zip(coords[i], coords[j]))
    d = F(dspec["min_atom_distance"])
    return s < (F(10) ** -6) ** 2 or (d > 0 and (d - F(10) ** -6) ** 2 < s < d**2)


# ---- layouts ---------------------------------------------------------------------------------------
def layout_cases(tier):
    out = []
    fills = [0.5, 1.0, 0.4, 0.45, 0.57, 0.35]
    for fill, mint, maxt, ntraps in itertools.product(fills, [1, 3], [None, 6], [2, 3, 5, 6, 7, 20]):
        for natoms in sorted({0, 1, int(ntraps * fill) - 1, int(ntraps * fill), int(ntraps * fill) + 1, math.ceil(ntraps * fill), ntraps}):
            if 1 <= natoms <= ntraps:
                out.append(("fill", fill, mint, maxt, ntraps, natoms))
    # products that are whole numbers mathematically but fall just below in floating point
    for fill, ntraps in ((0.57, 100), (0.29, 100), (0.58, 50), (0.07, 100), (0.35, 20), (0.45, 20), (0.7, 10)):
        exact = int(Fraction(str(fill)) * ntraps)
        for natoms in (exact - 1, exact, exact + 1):
            out.append(("fill", fill, 1, None, ntraps, natoms))
    # every register-level limit also for registers that come from a (valid) layout
    for fill, ntraps in ((0.5, 6), (1.0, 6), (0.5, 20), (1.0, 7)):
        for natoms in sorted({1, int(ntraps * fill) - 1, int(ntraps * fill)}):
            if natoms >= 1:
                for maxatoms in (natoms - 1, natoms, natoms + 1):
                    if maxatoms >= 1:
                        out.append(("fillmax", fill, ntraps, natoms, maxatoms))
    # the caller edits what it READ from a layout (trap mapping, coordinate arrays) before the device judges the layout
    for geom in ("fits", "too-close", "too-far"):
        for reader in ("traps_dict", "traps_dict-twice", "coords", "sorted_coords", "trap_coordinates"):
            for edit in ("scale", "move-one", "delete", "zero"):
                out.append(("layoutalias", geom, reader, edit))
    # MAPPABLE registers: the register a sequence ends up with is chosen at build time - the device's limits apply to it all the same
    for fill, ntraps in ((0.5, 6), (1.0, 6), (0.5, 20), (1.0, 7), (0.45, 20)):
        cap = int(Fraction(str(fill)) * ntraps)
        for ndecl in sorted({cap, cap - 1}):
            for nmap in sorted({1, ndecl - 1, ndecl}):
                if 1 <= nmap <= ndecl:
                    for maxatoms in sorted({nmap - 1, nmap, nmap + 1, None}, key=lambda x: (x is None, x)):
                        if maxatoms is None or maxatoms >= 1:
                            for which in ("first", "last"):
                                out.append(("mappable", fill, ntraps, ndecl, nmap, maxatoms, which))
    for dd in (D - E, D, D + E):
        out.append(("trapgeom", dd))
    for rr in (R - E, R, R + E):
        out.append(("trapradius", rr))
    return out


def check_layout(case):
    from pulser.register.register_layout import RegisterLayout

    out = []
    with warnings.catch_warnings():
        warnings.simplefilter("ignore")
        if case[0] == "fill":
            _, fill, mint, maxt, ntraps, natoms = case
            dev = make_device(dict(dimensions=2, max_atom_num=None, min_atom_distance=D, max_radial_distance=None),
                              max_layout_filling=fill, min_layout_traps=mint, max_layout_traps=maxt)
            L = RegisterLayout([(5.0 * i, 0.0) for i in range(ntraps)])
            reg = L.define_register(*range(natoms))
            layout_ok = ntraps >= mint and (maxt is None or ntraps <= maxt)
            fill_ok = Fraction(natoms, ntraps) <= Fraction(str(fill))
            try:
                dev.validate_register(reg)
                ok, err = True, None
            except Exception as e:
                ok, err = False, e
            if layout_ok and fill_ok and not ok:
                out.append((f"C12:fitting-layout-register-refused:{type(err).__name__}", f"{natoms} atoms on {ntraps} traps, max filling {fill}, traps [{mint},{maxt}]: {err}"[:250]))
            elif not (layout_ok and fill_ok) and ok:
                out.append((f"C12:misfit-layout-register-accepted:{'filling' if layout_ok else 'traps'}", f"{natoms} atoms on {ntraps} traps, max filling {fill}, traps [{mint},{maxt}]"))
            # automatic layout of a plain register with the same atoms must be accepted by the device
            if maxt is None or natoms / fill <= maxt:
                import dataclasses

                import pulser
                from pulser import Register

                pdev = dataclasses.replace(pulser.AnalogDevice, max_layout_filling=fill, min_layout_traps=mint,
                                           max_layout_traps=maxt if maxt is not None else 200, optimal_layout_filling=None,
                                           max_atom_num=min(pulser.AnalogDevice.max_atom_num, int((maxt or 200) * fill)),
                                           pre_calibrated_layouts=())
                side = math.ceil(math.sqrt(natoms))
                pts = [(6.0 * (i % side) - 3.0 * (side - 1), 6.0 * (i // side) - 3.0 * (side - 1)) for i in range(natoms)]
                plain = Register({f"q{i}": p for i, p in enumerate(pts)})
                try:
                    auto = plain.with_automatic_layout(pdev)
                    pdev.validate_register(auto)
                except Exception as e:
                    out.append((f"C12:automatic-layout-rejected:{type(e).__name__}", f"{natoms} atoms, max filling {fill}, traps [{mint},{maxt}]: {e}"[:250]))
                # the same atoms already sitting on a FOREIGN layout that does not fit this device (exactly the atoms as traps: over-filled
                # and usually too few traps; one far-away extra trap; two extra traps too close to each other): the device-aware constructor
                # still has to hand back a register that this device accepts
                for fk, extra in (("atoms-only", []), ("far-trap", [(400.0, 0.0)]), ("close-traps", [(60.0, 60.0), (60.5, 60.0)])):
                    try:
                        foreign = RegisterLayout(pts + extra)
                        onit = foreign.define_register(*foreign.get_traps_from_coordinates(*pts), qubit_ids=[f"q{i}" for i in range(natoms)])
                    except Exception:
                        continue
                    try:
                        pdev.validate_register(onit)
                        continue  # this layout happens to fit: nothing to show
                    except Exception:
                        pass
                    try:
                        auto2 = onit.with_automatic_layout(pdev)
                        pdev.validate_register(auto2)
                        from pulser import Sequence

                        Sequence(auto2, pdev)
                    except Exception as e:
                        out.append((f"C12:automatic-layout-rejected:register-with-a-foreign-layout:{fk}:{type(e).__name__}",
                                    f"{natoms} atoms, max filling {fill}, traps [{mint},{maxt}]: {e}"[:250]))
            return out + [("@layout", "")]
        if case[0] == "mappable":
            from pulser import Sequence
            from pulser.register.mappable_reg import MappableRegister

            _, fill, ntraps, ndecl, nmap, maxatoms, which = case
            dev = make_device(dict(dimensions=2, max_atom_num=maxatoms, min_atom_distance=D, max_radial_distance=None),
                              max_layout_filling=fill, min_layout_traps=1, max_layout_traps=None)
            L = RegisterLayout([(5.0 * i, 0.0) for i in range(ntraps)])
            ids = [f"q{i}" for i in range(ndecl)]
            try:
                seq = Sequence(MappableRegister(L, *ids), dev)
            except Exception as e:  # noqa: BLE001
                if Fraction(ndecl, ntraps) <= Fraction(str(fill)) and (maxatoms is None or ndecl <= maxatoms):
                    return [(f"C12:fitting-mappable-register-refused:{type(e).__name__}", f"{ndecl} ids on {ntraps} traps, filling {fill}, max atoms {maxatoms}: {e}"[:250])]
                return [("@mappable-creation-refused", "")]
            seq.declare_channel("g", "rydberg_global")
            traps = list(range(ntraps)) if which == "first" else list(range(ntraps - 1, -1, -1))
            mapping = {ids[i]: traps[i] for i in range(nmap)}
            want = (maxatoms is None or nmap <= maxatoms) and Fraction(nmap, ntraps) <= Fraction(str(fill))
            try:
                built = seq.build(qubits=mapping)
                ok, err = True, None
            except Exception as e:  # noqa: BLE001
                ok, err = False, e
            if want and not ok:
                out.append((f"C12:fitting-mappable-build-refused:{type(err).__name__}", f"{nmap} of {ndecl} ids mapped on {ntraps} traps, filling {fill}, max atoms {maxatoms}: {err}"[:250]))
            elif ok and not want:
                why = "atoms" if (maxatoms is not None and nmap > maxatoms) else "filling"
                out.append((f"C12:misfit-mappable-build-accepted:{why}", f"build() gave a sequence with {len(built.register.qubit_ids)} atoms (max {maxatoms}) on {ntraps} traps, "
                            f"max filling {fill}"))
            elif ok:
                # what was built is a register the device accepts, holding exactly the mapped ids on the chosen traps
                try:
                    dev.validate_register(built.register)
                except Exception as e:  # noqa: BLE001
                    out.append((f"C12:built-register-rejected-by-device:{type(e).__name__}", str(e)[:200]))
                if set(built.register.qubit_ids) != set(mapping):
                    out.append(("C12:built-register-ids", f"{sorted(built.register.qubit_ids)} vs {sorted(mapping)}"))
            return out + [("@mappable", "")]
        if case[0] == "fillmax":
            from pulser import Sequence

            _, fill, ntraps, natoms, maxatoms = case
            dev = make_device(dict(dimensions=2, max_atom_num=maxatoms, min_atom_distance=D, max_radial_distance=None),
                              max_layout_filling=fill, min_layout_traps=1, max_layout_traps=None)
            L = RegisterLayout([(5.0 * i, 0.0) for i in range(ntraps)])
            reg = L.define_register(*range(natoms))
            want = natoms <= maxatoms and Fraction(natoms, ntraps) <= Fraction(str(fill))
            for how, call in (("validate_register", lambda: dev.validate_register(reg)), ("Sequence", lambda: Sequence(reg, dev))):
                try:
                    call()
                    ok, err = True, None
                except Exception as e:
                    ok, err = False, e
                if want and not ok:
                    out.append((f"C12:fitting-layout-register-refused:{type(err).__name__}", f"{how}: {natoms} atoms (max {maxatoms}) on {ntraps} traps, filling {fill}: {err}"[:250]))
                elif ok and not want:
                    why = "atoms" if natoms > maxatoms else "filling"
                    out.append((f"C12:misfit-layout-register-accepted:{why}", f"{how}: {natoms} atoms (max {maxatoms}) on {ntraps} traps, max filling {fill}"))
            return out + [("@layout", "")]
        if case[0] == "layoutalias":
            from pulser import Sequence

            _, geom, reader, edit = case
            dev = make_device(dict(dimensions=2, max_atom_num=None, min_atom_distance=D, max_radial_distance=R), max_layout_filling=1.0)
            pts = {"fits": [(0.0, 0.0), (5.0, 0.0), (0.0, 5.0), (-5.0, -5.0)], "too-close": [(0.0, 0.0), (D / 2, 0.0), (0.0, 5.0), (-5.0, -5.0)],
                   "too-far": [(0.0, 0.0), (5.0, 0.0), (0.0, 5.0), (R + 3.0, 0.0)]}[geom]
            L = RegisterLayout(pts)

            def verdicts(lay):
                v = []
                for call in (lambda: dev.validate_layout(lay), lambda: dev.validate_register(lay.define_register(0, 1)),
                             lambda: Sequence(lay.define_register(0, 2), dev), lambda: lay.define_register(3).qubits):
                    try:
                        call()
                        v.append("ok")
                    except Exception as e:
                        v.append(type(e).__name__)
                return v

            before = verdicts(RegisterLayout(pts))
            want_ok = geom == "fits"
            if (before[0] == "ok") != want_ok:
                out.append((f"C12:layout-verdict:{geom}", f"{before}"))
            if reader == "traps_dict-twice":
                L.traps_dict
            got = {"traps_dict": lambda: L.traps_dict, "traps_dict-twice": lambda: L.traps_dict, "coords": lambda: L.coords,
                   "sorted_coords": lambda: L.sorted_coords, "trap_coordinates": lambda: L.traps_dict[0]}[reader]()
            rows = list(got.values()) if isinstance(got, dict) else ([got] if reader == "trap_coordinates" else list(got))
            try:
                if edit == "scale":
                    for r in rows:
                        r *= 2.0
                elif edit == "move-one":
                    rows[-1][...] = 1e4
                elif edit == "zero":
                    for r in rows:
                        r[...] = 0.0
                elif edit == "delete":
                    if isinstance(got, dict):
                        for k_ in list(got)[1:]:
                            del got[k_]
                    else:
                        rows[0][...] = float("nan")
            except (ValueError, TypeError):
                return out + [("@layout-read-only", "")]
            after = verdicts(L)
            if after != before:
                out.append((f"C12:verdict-follows-the-callers-edit-of-what-it-read:{reader}:{geom}",
                            f"{edit}: validate_layout / validate_register / Sequence / define_register answered {before} for these traps, {after} after the caller edited the object returned by {reader}"))
            return out + [("@layoutalias", "")]
        if case[0] == "trapgeom":
            dev = make_device(dict(dimensions=2, max_atom_num=None, min_atom_distance=D, max_radial_distance=None), max_layout_filling=1.0)
            L = RegisterLayout([(0.0, 0.0), (case[1], 0.0), (0.0, 9.0)])
            want = case[1] >= D
            try:
                dev.validate_layout(L)
                ok = True
            except Exception:
                ok = False
            if want != ok:
                out.append((f"C12:layout-trap-distance:{'refused' if want else 'accepted'}", f"traps {case[1]} apart, minimum {D}"))
            return out + [("@layout", "")]
        if case[0] == "trapradius":
            dev = make_device(dict(dimensions=2, max_atom_num=None, min_atom_distance=0.0, max_radial_distance=R), max_layout_filling=1.0)
            L = RegisterLayout([(0.0, 0.0), (0.6 * case[1], 0.8 * case[1])])
            want = case[1] <= R
            try:
                dev.validate_layout(L)
                ok = True
            except Exception:
                ok = False
            if want != ok:
                out.append((f"C12:layout-trap-radius:{'refused' if want else 'accepted'}", f"trap at radius {case[1]}, maximum {R}"))
            return out + [("@layout", "")]
    return out


# ---- device-aware constructors and device construction ------------------------------------------------
def check_constructor(case):
    from pulser import Register

    out = []
    with warnings.catch_warnings():
        warnings.simplefilter("ignore")
        if case[0] == "maxconn":
            _, dspec, n, spacing = case
            dev = make_device(dspec)
            try:
                reg = Register.max_connectivity(n, dev, spacing=spacing)
            except NotImplementedError:
                return [("@maxconn-undefined", "")]
            except ValueError as e:
                if (dspec["max_atom_num"] is not None and n > dspec["max_atom_num"]) or (spacing is not None and spacing < dspec["min_atom_distance"]):
                    return [("@maxconn-refused", "")]
                return [(f"C12:max-connectivity-raises", f"n={n}, spacing={spacing} on {dspec}: {e}"[:200])]
            if dspec["max_radial_distance"] is not None:
                return [("@maxconn-radius-not-promised", "")]
            try:
                dev.validate_register(reg)
            except Exception as e:
                out.append((f"C12:max-connectivity-rejected:{type(e).__name__}", f"n={n}, spacing={spacing} on {dspec}: {e}"[:200]))
            return out + [("@maxconn", "")]
        if case[0] == "devparams":
            _, params, valid = case
            try:
                dev = make_device(dict(dimensions=2, max_atom_num=None, min_atom_distance=0.0, max_radial_distance=None), **params)
                str(dev.specs)
                dev.__doc__
                ok, err = True, None
            except Exception as e:
                ok, err = False, e
            if valid and not ok:
                out.append((f"C12:device-construction-raises:{type(err).__name__}", f"{params}: {err}"[:200]))
            elif not valid and ok:
                out.append(("C12:invalid-device-accepted", f"{params}"))
            return out + [("@device", "")]
    return out


def constructor_cases(tier):
    from pulser.channels import DMM, Raman, Rydberg

    out = []
    for dspec in device_specs(tier):
        for n in (1, 2, 3, 4, 7):
            # the spacing pre-check of the constructor and the device's distance check must agree around the minimum distance
            for spacing in (None, D, D + 1.0, D - 1.0, D - 1e-3, D - 3e-5, D - 1e-5, D - 2e-6, D - 5e-7, D + 5e-7, D + 1e-3):
                out.append(("maxconn", dspec, n, spacing))
    # device parameter combinations: each optional limit None / valid / boundary / invalid
    combos = [
        (dict(max_layout_filling=1.0), True), (dict(max_layout_filling=1e-9), True), (dict(max_layout_filling=0.0), False),
        (dict(max_layout_filling=1.0 + 1e-9), False),
        (dict(max_layout_filling=0.6, optimal_layout_filling=0.6), True), (dict(max_layout_filling=0.6, optimal_layout_filling=0.61), False),
        (dict(min_layout_traps=1, max_layout_traps=1), True), (dict(min_layout_traps=3, max_layout_traps=2), False),
        (dict(min_layout_traps=0), False),
        (dict(max_atom_num=5, max_layout_traps=10, max_layout_filling=0.5), True),
        (dict(max_atom_num=6, max_layout_traps=10, max_layout_filling=0.5), False),
        # fillings whose product with the number of traps is a whole number mathematically but falls just below it in floating point
        (dict(max_atom_num=29, max_layout_traps=100, max_layout_filling=0.29), True), (dict(max_atom_num=30, max_layout_traps=100, max_layout_filling=0.29), False),
        (dict(max_atom_num=57, max_layout_traps=100, max_layout_filling=0.57), True), (dict(max_atom_num=58, max_layout_traps=100, max_layout_filling=0.57), False),
        (dict(max_atom_num=29, max_layout_traps=50, max_layout_filling=0.58), True), (dict(max_atom_num=7, max_layout_traps=100, max_layout_filling=0.07), True),
        (dict(max_atom_num=21, max_layout_traps=30, max_layout_filling=0.7), True), (dict(max_atom_num=22, max_layout_traps=30, max_layout_filling=0.7), False),
        (dict(max_atom_num=21, max_layout_traps=60, max_layout_filling=0.35), True), (dict(max_atom_num=42, max_layout_traps=60, max_layout_filling=0.7), True),
        (dict(max_atom_num=7, max_layout_traps=20, max_layout_filling=0.35), True), (dict(max_atom_num=9, max_layout_traps=20, max_layout_filling=0.45), True),
        (dict(max_sequence_duration=1), True), (dict(max_sequence_duration=0), False), (dict(max_runs=1), True), (dict(max_runs=0), False),
        (dict(rydberg_level=50), True), (dict(rydberg_level=100), True), (dict(rydberg_level=49), False), (dict(rydberg_level=101), False),
        (dict(min_atom_distance=-1e-9), False), (dict(max_radial_distance=0), False), (dict(max_radial_distance=1), True), (dict(max_atom_num=0), False),
        (dict(supports_slm_mask=True, dmm_objects=()), False), (dict(supports_slm_mask=True, dmm_objects=(DMM(),)), True),
        (dict(reusable_channels=True), True),
    ]
    for a, b in itertools.product([None, 10.0], [None, 20.0]):
        for cls in (Rydberg, Raman):
            combos.append((dict(channel_objects=(cls.Global(b, a), cls.Local(b, a, max_duration=None))), True))
            combos.append((dict(channel_objects=(cls.Global(b, a, mod_bandwidth=4.0, max_duration=None, min_avg_amp=0.1),)), True))
    for bd, tb in itertools.product([None, -10.0], [None, -20.0]):
        combos.append((dict(dmm_objects=(DMM(bottom_detuning=bd, total_bottom_detuning=tb),), supports_slm_mask=True), True))
    for params, valid in combos:
        out.append(("devparams", params, valid))
    return out


def worker(case):
    k = case[0]
    if k == "reg":
        return check_register(case[1:])
    if k in ("fill", "fillmax", "trapgeom", "trapradius", "layoutalias", "mappable"):
        return check_layout(case)
    return check_constructor(case)


def run(tier, seed):
    res = Result("exploration")
    cases = [("reg", d, r) for d in device_specs(tier) for r in register_cases(tier)]
    cases += layout_cases(tier) + constructor_cases(tier)
    outs = gridx.run(worker, cases)
    classes = {}
    for c, r in zip(cases, outs):
        for fp, d in r:
            if fp.startswith("@"):
                classes[fp] = classes.get(fp, 0) + 1
            else:
                res.add(Violation(fp, d, {"engine": "grid", "case": repr(c)}))
    res.coverage = dict(
        evaluations=len(cases), distinct_nontrivial=len(cases) - classes.get("@register-unbuildable", 0), exhaustive=True,
        outcome_classes=classes,
        rule="16 devices {dimensions 2/3} x {max atoms None/3} x {min distance 0/4} x {max radius None/10} x registers with one pair at "
             "{d-1e-3, d-5e-7, d, d+1e-3, 0, 1e-7, 2e-6} (along x and along a 3-4-5 direction, violating pair at each index position), "
             "one atom at radius {R-1e-3, R, R+1e-3} on 3-4-5 multiples, counts max / max+1, 3D on 2D devices, every atom order (<= 3 "
             "atoms); layouts: filling {0.5,1,0.4,0.45,0.57,0.35} x trap-count bounds x trap counts x atom counts around the limit, "
             "trap distance / radius at the limits; automatic layouts; max_connectivity for n x spacing; device construction for each "
             "parameter None / valid / boundary / invalid; every case sits on or next to a limit",
        samples=[repr(cases[i])[:200] for i in (0, len(cases) // 2, len(cases) - 1)])
    res.assumptions = ["distances within 1e-6 below the minimum, and radii within 1e-14 (relative) of the maximum, are don't-care bands",
                       "expected verdicts from exact rational arithmetic on the float inputs"]
    return res


def replay(payload):
    from pulser.channels import DMM, Raman, Rydberg  # noqa: F401 (names used by the repr'd case)

    case = eval(payload["case"], {"DMM": DMM, "Raman": Raman, "Rydberg": Rydberg, "RydbergBeam": None})
    return [Violation(fp, d, payload) for fp, d in worker(case) if not fp.startswith("@")]
