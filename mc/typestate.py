"""Abstract typestate model of Sequence (C13): which building operations are accepted in which mode.

Plain Python, written from the class/method docstrings and the property statement.  `step(state, op, dev)`
returns (verdict, next_state): verdict True = must be accepted, False = must be refused, None = the
documented typestate does not decide it (data-dependent or outside the statement).  States are hashable.
"""
from __future__ import annotations

from dataclasses import dataclass, replace
from typing import Optional

PROTECTED_VARS = ("qubits", "seq_name", "json_dumps_options")


@dataclass(frozen=True)
class Dev:
    ids: tuple  # channel ids
    dmm_ids: tuple
    reusable: bool
    eom_ids: tuple  # ids with an EOM
    bases: tuple  # supported bases

    @staticmethod
    def of(world):
        d = world.device
        return Dev(tuple(d.channels), tuple(d.dmm_channels), bool(d.reusable_channels),
                   tuple(i for i, c in d.channels.items() if c.supports_eom()), tuple(sorted(d.supported_bases)))


def is_local(ch_id):
    return ch_id.endswith("_local")


def is_xy(ch_id):
    return ch_id.startswith("mw")


def is_dmm(ch_id):
    return ch_id.startswith("dmm")


def basis_of(ch_id):
    if is_xy(ch_id):
        return "XY"
    return "digital" if ch_id.startswith("raman") else "ground-rydberg"


@dataclass(frozen=True)
class St:
    chans: tuple = ()  # ((name, ch_id, in_eom, has_target, pending), ...) in declaration order
    kind: str = "undecided"  # undecided | ising | xy
    slm: Optional[str] = None  # dmm id reserved / used by a configured SLM mask
    slm_chan: Optional[str] = None  # name of the DMM channel realising the SLM mask (Ising mode)
    slm_waiting: bool = False
    measured: bool = False
    param: bool = False
    empty: bool = True
    vars: tuple = ()
    global_pulse: bool = False
    bases: tuple = ()  # addressed bases

    def chan(self, name):
        for c in self.chans:
            if c[0] == name:
                return c
        return None

    def names(self):
        return [c[0] for c in self.chans]

    def used_ids(self):
        return {c[1] for c in self.chans}

    def with_chan(self, name, **kw):
        out = []
        for c in self.chans:
            if c[0] == name:
                d = dict(zip(("name", "ch_id", "in_eom", "has_target", "pending"), c))
                d.update(kw)
                c = (d["name"], d["ch_id"], d["in_eom"], d["has_target"], d["pending"])
            out.append(c)
        return replace(self, chans=tuple(out))


def dmm_name(dmm_id, names):
    n = sum(1 for x in names if x == dmm_id or x.startswith(dmm_id + "_"))
    return dmm_id if n == 0 else f"{dmm_id}_{n}"


def _srt(chans):
    return tuple(sorted(chans))


def _add_bases(st, basis):
    return st if basis in st.bases else replace(st, bases=tuple(sorted(st.bases + (basis,))))


def _enter_ising(st: St, dev: Dev) -> St:
    """First non-XY declaration: a reserved SLM mask becomes a DMM channel waiting for the first global pulse."""
    if st.kind == "ising":
        return st
    st = replace(st, kind="ising")
    if st.slm is not None and not st.param:
        nm = dmm_name(st.slm, st.names())
        st = replace(st, chans=_srt(st.chans + ((nm, st.slm, False, True, False),)), slm_chan=nm,
                     slm_waiting=not st.global_pulse)
        st = _add_bases(st, "ground-rydberg")
    return st


def id_available(st: St, dev: Dev, ch_id: str) -> bool:
    if ch_id not in dev.ids and ch_id not in dev.dmm_ids:
        return False
    if st.kind == "xy" and not is_xy(ch_id):
        return False
    if st.kind == "ising" and is_xy(ch_id):
        return False
    if dev.reusable:
        return True
    if ch_id in st.used_ids():
        return False
    if st.slm == ch_id and st.slm_chan is None and st.kind != "xy":
        return False  # reserved for the SLM mask
    return True


def step(st: St, op: tuple, dev: Dev):
    k = op[0]
    if k == "declare":
        name, ch_id = op[1], op[2]
        tgt = op[3] if len(op) > 3 else None
        if st.measured or name in st.names() or name.startswith("dmm_") or ch_id not in dev.ids:
            return False, None
        if not id_available(st, dev, ch_id):
            return False, None
        if is_xy(ch_id):
            n = replace(st, kind="xy")
        else:
            n = _enter_ising(st, dev)
        has_t = (not is_local(ch_id)) or tgt is not None
        n = replace(n, chans=_srt(n.chans + ((name, ch_id, False, has_t, False),)))
        return True, _add_bases(n, basis_of(ch_id))
    if k == "config_dmm":
        dmm_id = op[2]
        if st.measured or dmm_id not in dev.dmm_ids or st.kind == "xy":
            return False, None
        if not id_available(st, dev, dmm_id):
            return False, None
        n = _enter_ising(st, dev)
        nm = dmm_name(dmm_id, n.names())
        n = replace(n, chans=_srt(n.chans + ((nm, dmm_id, False, True, st.param),)))
        return True, (n if st.param else _add_bases(n, "ground-rydberg"))
    if k == "slm":
        dmm_id = op[2] if len(op) > 2 else "dmm_0"
        if st.param:
            # deferred to build; the DMM it will use is listed among the declared channels meanwhile
            if dmm_id not in dev.dmm_ids:
                return None, None
            nm = dmm_name(dmm_id, st.names())
            return None, replace(st, chans=_srt(st.chans + ((nm, dmm_id, False, True, True),)))
        if st.slm is not None:
            return False, None
        if st.kind in ("xy", "undecided"):
            if dmm_id not in dev.dmm_ids:
                return False, None
            if st.measured:
                return None, replace(st, slm=dmm_id)  # not a timeline change
            return True, replace(st, slm=dmm_id)
        # Ising: the mask is realised right away by a DMM channel
        if st.measured:
            return False, None  # timeline-changing call after measurement
        if dmm_id not in dev.dmm_ids or not id_available(st, dev, dmm_id):
            return False, None
        nm = dmm_name(dmm_id, st.names())
        n = replace(st, slm=dmm_id, slm_chan=nm, slm_waiting=not st.global_pulse,
                    chans=_srt(st.chans + ((nm, dmm_id, False, True, False),)))
        return True, _add_bases(n, "ground-rydberg")
    if k in ("add_v", "delay_v", "eom_pulse_v") and op[1] not in st.vars:
        return False, None  # the variable does not exist: the call cannot even be formed
    if k == "eom_pulse_v":
        c = st.chan(op[2])
        if st.measured or c is None or not c[2]:
            return False, None
        return True, replace(st, empty=False, param=True)
    if k in ("add", "add_v"):
        name = op[2] if k == "add" else op[3]
        c = st.chan(name)
        if st.measured or c is None or c[2] or is_dmm(c[1]):
            return False, None
        will_param = st.param or k == "add_v"
        if not c[3]:
            if will_param:
                return None, replace(st, empty=False, param=True)
            return False, None
        n = replace(st, empty=False, param=will_param)
        if not will_param and not is_local(c[1]):
            n = replace(n, global_pulse=True, slm_waiting=False)
        return True, n
    if k == "add_dmm":
        c = st.chan(op[2])
        if st.measured or c is None or not is_dmm(c[1]):
            return False, None
        if st.slm_chan == op[2] and st.slm_waiting:
            return False, None
        return True, replace(st, empty=False)
    if k in ("delay", "delay_v"):
        name = op[2]
        c = st.chan(name)
        will_param = st.param or k == "delay_v"
        if st.measured or c is None:
            return False, None
        if st.slm_chan == name and st.slm_waiting:
            return False, None
        if not c[3]:
            return (None, replace(st, param=True)) if will_param else (False, None)
        return True, replace(st, param=will_param)
    if k == "target":
        c = st.chan(op[2])
        if st.measured or c is None or c[2] or not is_local(c[1]):
            return False, None
        return True, st.with_chan(op[2], has_target=True)
    if k == "align":
        names = list(op[1])
        if st.measured or len(set(names)) != len(names) or len(names) < 2:
            return False, None
        cs = [st.chan(n) for n in names]
        if any(c is None or c[4] for c in cs):
            return False, None
        if any(not c[3] for c in cs) or (st.slm_waiting and st.slm_chan in names):
            return None, st  # acceptance depends on the timeline (see known findings)
        return True, st
    if k == "phase_shift":
        if op[3] not in st.bases:
            return False, None
        return True, st
    if k == "enable_eom":
        c = st.chan(op[1])
        if st.measured or c is None or c[2] or c[1] not in dev.eom_ids:
            return False, None
        return True, st.with_chan(op[1], in_eom=True)
    if k == "eom_pulse":
        c = st.chan(op[1])
        if st.measured or c is None or not c[2]:
            return False, None
        n = replace(st, empty=False)
        if not st.param:
            n = replace(n, global_pulse=True, slm_waiting=False)
        return True, n
    if k == "modify_eom":
        c = st.chan(op[1])
        if st.measured or c is None or not c[2]:
            return False, None
        return True, st
    if k == "disable_eom":
        c = st.chan(op[1])
        if st.measured or c is None or not c[2]:
            return False, None
        return True, st.with_chan(op[1], in_eom=False)
    if k == "measure":
        if st.measured:
            return False, None
        ok = (op[1] == "XY") if st.kind == "xy" else (op[1] in dev.bases and op[1] != "XY")
        return (True, replace(st, measured=True)) if ok else (False, None)
    if k == "declare_var":
        if op[1] in st.vars or op[1] in PROTECTED_VARS:
            return False, None
        return True, replace(st, vars=st.vars + (op[1],))
    if k == "estimate":  # estimate_added_delay: an inspection call like the others once a variable was used; otherwise not modelled
        return (False, None) if st.param else (None, st)
    if k == "ro":  # inspection calls
        if op[1] == "str":
            return True, st
        return (False, None) if st.param else (True, st)
    if k == "magfield":
        if st.kind == "xy":
            if not st.empty:
                return False, None
            return (None, st) if st.measured else (True, st)
        if st.kind == "undecided" and not st.chans:
            return (None if st.measured else True), replace(st, kind="xy")
        return False, None
    return None, None


def fold(history, dev: Dev):
    """Model state after a history of *accepted* ops; None when the model could not follow the history."""
    st = St()
    for op in history:
        v, n = step(st, op, dev)
        if n is None or v is False:
            return None
        st = n
    return st
