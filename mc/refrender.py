"""RefRender — renders a timeline snapshot to per-channel arrays and to a per-atom, per-basis complex
drive / detuning, from the slot list and each scheduled pulse's own samples (independent of
`_ChannelSchedule.get_samples` and `SequenceSamples.to_nested_dict`)."""
from __future__ import annotations

import numpy as np

from mc.refsched import basis_of


def channel_arrays(ch, T=None):
    """amp, det over [0, T) (T defaults to the channel's end); padding: zeros, off-detuning if still in EOM mode."""
    end = ch.end
    T = end if T is None else max(T, end)
    amp = np.zeros(T)
    det = np.zeros(T)
    for s in ch.slots:
        if s.kind == "pulse":
            amp[s.ti:s.tf] += s.pulse.amp
            det[s.ti:s.tf] += s.pulse.det
        elif s.in_eom and s.tf > s.ti:
            # idle time inside an EOM block is at the block's off-detuning whatever the slot is called
            det[s.ti:s.tf] += eom_off_at(ch, s.ti)
    if T > end and ch.in_eom():
        det[end:] = ch.eom_blocks[-1][2]
    return amp, det


def eom_off_at(ch, t) -> float:
    """Off-detuning of the EOM block containing time t (0 outside blocks)."""
    for b in ch.eom_blocks:
        if b[3] <= t < (ch.end if b[4] is None else b[4]):
            return b[2]
    return 0.0


def weights_of(ch, world) -> dict:
    """Detuning-map weight of each atom of the register (0 when no trap sits at its position)."""
    coords, ws = ch.detmap
    out = {}
    pos = world.register.qubits
    for q in world.qids:
        p = np.round(np.asarray(pos[q].as_array() if hasattr(pos[q], "as_array") else pos[q], dtype=float), 6)
        w = 0.0
        for c, wt in zip(coords, ws):
            c = np.asarray(c, dtype=float)
            if len(c) == len(p) and np.all(np.abs(c - p) < 1e-6):
                w = wt
        out[q] = w
    return out


def slm_end(snap, world) -> int:
    """End of the SLM mask in XY mode: end of the first pulse of the global channel whose first pulse starts earliest."""
    best = None
    for ch in snap.channels.values():
        if ch.is_dmm or world.params(ch.ch_id)["local"]:
            continue
        for s in ch.slots:
            if s.kind == "pulse" and not s.pulse.detuned_delay:
                if best is None or s.ti < best[0]:
                    best = (s.ti, s.tf)
                break
    return best[1] if best else 0


def atom_view(snap, world):
    """{basis: {q: (complex drive array, detuning array)}} over [0, T), T = sequence end."""
    T = max([c.end for c in snap.channels.values()] + [0])
    out = {}
    masked = set(snap.flags.get("slm_targets") or ())
    in_xy = snap.flags.get("in_xy")
    mask_end = slm_end(snap, world) if (in_xy and masked) else 0
    for ch in snap.channels.values():
        basis = basis_of(ch.ch_id)
        d = out.setdefault(basis, {q: (np.zeros(T, dtype=complex), np.zeros(T)) for q in world.qids})
        wts = weights_of(ch, world) if ch.is_dmm else None
        for s in ch.slots:
            if s.kind != "pulse":
                if s.in_eom and s.tf > s.ti:
                    for q in s.targets:
                        d[q][1][s.ti:s.tf] += eom_off_at(ch, s.ti)
                continue
            for q in s.targets:
                ti = s.ti
                if in_xy and q in masked:
                    ti = max(ti, mask_end)
                if ti >= s.tf:
                    continue
                sl = slice(ti, s.tf)
                a = s.pulse.amp[ti - s.ti:]
                dd = s.pulse.det[ti - s.ti:]
                d[q][0][sl] += a * np.exp(-1j * s.pulse.phase)
                d[q][1][sl] += dd * (wts[q] if wts is not None else 1.0)
        if ch.end < T and ch.in_eom():
            for q in (ch.slots[-1].targets if ch.slots else ()):
                d[q][1][ch.end:] += ch.eom_blocks[-1][2]
    return out, T


def impl_atom_view(nested, qids, T):
    """The same per-atom quantities read from SequenceSamples.to_nested_dict()."""
    out = {}
    for addr in ("Global", "Local"):
        for basis, val in nested.get(addr, {}).items():
            d = out.setdefault(basis, {q: (np.zeros(T, dtype=complex), np.zeros(T)) for q in qids})
            if addr == "Global":
                if not val:
                    continue
                drive = np.asarray(val["amp"]) * np.exp(-1j * np.asarray(val["phase"]))
                for q in qids:
                    d[q][0][:] += drive
                    d[q][1][:] += np.asarray(val["det"])
            else:
                for q, v in val.items():
                    d[q][0][:] += np.asarray(v["amp"]) * np.exp(-1j * np.asarray(v["phase"]))
                    d[q][1][:] += np.asarray(v["det"])
    return out
