"""SeqX — explicit-state breadth-first explorer over call histories of the real Sequence (DESIGN §2.2).

A state is the history reaching it; live objects are rebuilt by replay on a fresh Sequence.  For every
frontier history h and every op o of the alphabet the real call is executed, the monitors judge
(pre, o, post) and the post snapshot is hashed; a history is extended only when its snapshot is new.
"""
from __future__ import annotations

import multiprocessing as mp
import os
import time
import warnings
from collections import Counter
from dataclasses import dataclass, field
from typing import Any, Callable, Optional

from mc import snapshot
from mc.evidence import Violation
from mc.worlds import World, apply

NPROC = int(os.environ.get("VERIF_NPROC", "16"))


@dataclass
class Ctx:
    world: World
    history: tuple  # ops before this one
    op: tuple
    pre: snapshot.Snap
    post: Optional[snapshot.Snap]
    exc: Optional[BaseException]
    seq: Any  # live object after the call
    ret: Any = None
    warns: list = field(default_factory=list)
    extra: dict = field(default_factory=dict)  # monitor-provided side observations (e.g. estimate)
    act: Counter = field(default_factory=Counter)  # activation counters
    raw: tuple = ()  # the op as written in the alphabet (before World.xlate)


class Step:
    """Executes one op on a rebuilt state and exposes pre/post snapshots."""

    def __init__(self, world: World, with_calls: bool):
        self.world = world
        self.with_calls = with_calls

    def run(self, history: tuple, op: tuple, pre: Optional[snapshot.Snap] = None, pre_hook=None) -> Ctx:
        w = self.world
        seq = w.fresh()
        for h in history:
            apply(seq, h, w)
        if pre is None:
            pre = snapshot.snap(seq, self.with_calls)
        extra = {}
        if pre_hook is not None:
            extra = pre_hook(seq, op, w) or {}
        exc = None
        ret = None
        with warnings.catch_warnings(record=True) as wl:
            warnings.simplefilter("always")
            try:
                ret = apply(seq, op, w)
            except Exception as e:  # the call was refused
                exc = e
        post = snapshot.snap(seq, self.with_calls)
        return Ctx(w, history, w.xlate(op), pre, post, exc, seq, ret, [str(x.message) for x in wl], extra, raw=op)


# ---- worker side -------------------------------------------------------------------------------
_G: dict = {}


def _init(world_spec, alphabet, monitors, with_calls, key_calls, pre_hook):
    _G.update(
        world=World(world_spec), alphabet=alphabet, monitors=monitors, with_calls=with_calls,
        key_calls=key_calls, pre_hook=pre_hook,
    )


def _work(hist_idx: tuple):
    try:
        return _work_inner(hist_idx)
    except BaseException as e:  # never let an unpicklable exception hang the pool
        import traceback

        return hist_idx, ("crash", f"{type(e).__name__}: {e}\n{traceback.format_exc()[-1500:]}")


def _work_inner(hist_idx: tuple):
    w = _G["world"]
    A = _G["alphabet"]
    history = tuple(A[i] for i in hist_idx)
    stepper = Step(w, _G["with_calls"])
    out = []
    pre = None
    for oi, op in enumerate(A):
        try:
            ctx = stepper.run(history, op, pre, _G["pre_hook"])
        except Exception as e:
            from mc.gridx import raised_in_library

            lib = raised_in_library(e)
            if not lib:
                raise
            # replaying the history / taking the snapshot made the library raise on a sequence it had accepted: a finding
            out.append((oi, False, type(e).__name__, f"libcrash:{oi}", [(f"LIB:raised-inside-the-harness-step:{type(e).__name__}:{lib}", f"{e}"[:250])], {}))
            continue
        pre = ctx.pre
        viols = []
        for m in _G["monitors"]:
            try:
                for fp, desc in m(ctx) or ():
                    viols.append((fp, desc))
            except Exception as e:
                from mc.gridx import raised_in_library

                lib = raised_in_library(e)
                if not lib:
                    raise
                # a library call made by the monitor on a sequence the library had accepted raised: a finding, not a harness error
                viols.append((f"LIB:raised-inside-the-oracle:{type(e).__name__}:{lib}", f"{m.__name__}: {e}"[:250]))
        out.append((oi, ctx.exc is None, type(ctx.exc).__name__ if ctx.exc else None,
                    ctx.post.hkey(with_calls=_G["key_calls"]), viols, dict(ctx.act)))
    return hist_idx, out


@dataclass
class Exploration:
    states: int = 0
    transitions: int = 0
    refused: int = 0
    layers: list = field(default_factory=list)
    violations: list = field(default_factory=list)
    activations: Counter = field(default_factory=Counter)
    exhaustive: bool = True
    cap_note: str = ""
    refusal_kinds: Counter = field(default_factory=Counter)
    samples: list = field(default_factory=list)
    infos: list = field(default_factory=list)  # side observations of monitors: fingerprints starting with "@"
    wall: float = 0.0


def explore(
    world_spec: dict,
    alphabet: list,
    depth: int,
    monitors: list,
    *,
    with_calls: bool = False,
    key_calls: bool = False,
    pre_hook: Callable | None = None,
    max_transitions: int | None = None,
    engine_tag: str = "seqx",
    pool=None,
) -> Exploration:
    t0 = time.time()
    alphabet = [tuple(o) for o in alphabet]
    ex = Exploration()
    w = World(world_spec)
    init = snapshot.snap(w.fresh(), with_calls)
    seen = {init.hkey(with_calls=key_calls)}
    frontier = [()]
    ctxm = mp.get_context("fork")
    own_pool = None
    try:
        own_pool = ctxm.Pool(NPROC, initializer=_init,
                             initargs=(world_spec, alphabet, monitors, with_calls, key_calls, pre_hook))
        for d in range(1, depth + 1):
            if not frontier:
                break
            if max_transitions is not None and ex.transitions + len(frontier) * len(alphabet) > max_transitions:
                keep = max(0, (max_transitions - ex.transitions) // len(alphabet))
                ex.exhaustive = False
                ex.cap_note = (f"transition cap {max_transitions} hit at depth {d}: {keep} of {len(frontier)} frontier "
                               f"states expanded; depth {d-1} fully covered")
                frontier = frontier[:keep]
            nxt = []
            new_states = 0
            trans = 0
            chunk = max(1, len(frontier) // (NPROC * 8))
            for hist_idx, out in own_pool.imap(_work, frontier, chunksize=chunk):
                if isinstance(out, tuple) and out and out[0] == "crash":
                    from mc.evidence import HarnessError

                    raise HarnessError(f"explorer worker crashed after history {[alphabet[i] for i in hist_idx]}: {out[1]}")
                for oi, ok, exname, hk, viols, act in out:
                    trans += 1
                    ex.activations.update(act)
                    if not ok:
                        ex.refused += 1
                        ex.refusal_kinds[exname] += 1
                    for fp, desc in viols:
                        hist_ops = [alphabet[i] for i in hist_idx]
                        if fp.startswith("@"):
                            ex.infos.append((hist_idx, oi, fp, desc))
                            continue
                        ex.violations.append(Violation(
                            fp, f"{desc} | world={w.name} after {len(hist_ops)} ops, op={alphabet[oi]}",
                            {"engine": engine_tag, "world": world_spec, "history": hist_ops, "op": alphabet[oi]},
                            size=len(hist_ops)))
                    if ok and hk not in seen:
                        seen.add(hk)
                        new_states += 1
                        nxt.append(hist_idx + (oi,))
            ex.transitions += trans
            ex.layers.append({"depth": d, "expanded": len(frontier), "transitions": trans, "new_states": new_states})
            frontier = nxt
    finally:
        if own_pool is not None:
            own_pool.terminate()
            own_pool.join()
    ex.states = len(seen)
    if frontier:
        h = frontier[len(frontier) // 2]
        ex.samples.append({"world": w.name, "history": [list(alphabet[i]) for i in h]})
    ex.wall = time.time() - t0
    return ex


def replay(payload: dict, monitors: list, *, with_calls: bool = False, pre_hook=None) -> list:
    """Re-execute one stored transition and return the violations the monitors raise on it."""
    w = World(payload["world"])
    history = tuple(_tup(o) for o in payload["history"])
    op = _tup(payload["op"])
    from mc.gridx import raised_in_library

    try:
        ctx = Step(w, with_calls).run(history, op, None, pre_hook)
    except Exception as e:
        lib = raised_in_library(e)
        if not lib:
            raise
        return [Violation(f"LIB:raised-inside-the-harness-step:{type(e).__name__}:{lib}", f"{e}"[:250], payload, size=len(history))]
    out = []
    for m in monitors:
        try:
            for fp, desc in m(ctx) or ():
                out.append(Violation(fp, desc, payload, size=len(history)))
        except Exception as e:
            lib = raised_in_library(e)
            if not lib:
                raise
            out.append(Violation(f"LIB:raised-inside-the-oracle:{type(e).__name__}:{lib}", f"{m.__name__}: {e}"[:250], payload, size=len(history)))
    return out


def _tup(o):
    """JSON lists -> the tuple form ops use (nested pulse specs stay lists)."""
    return tuple(o)


def run_plan(res, plan, monitors, *, with_calls=False, key_calls=False, pre_hook=None, max_transitions=None, engine_tag="seqx",
             infos=None):
    """Run a list of (world_spec, alphabet, depth) explorations and accumulate coverage into `res`."""
    cov = dict(states=0, transitions=0, traces_validated_against_impl=0, refused=0, worlds=[], samples=[], exhaustive=True)
    for spec, alpha, depth in plan:
        ex = explore(spec, alpha, depth, monitors, with_calls=with_calls, key_calls=key_calls, pre_hook=pre_hook,
                     max_transitions=max_transitions, engine_tag=engine_tag)
        cov["states"] += ex.states
        cov["transitions"] += ex.transitions
        cov["refused"] += ex.refused
        cov["exhaustive"] &= ex.exhaustive
        cov["worlds"].append(dict(world=spec["name"], depth=depth, alphabet=len(alpha), states=ex.states,
                                  transitions=ex.transitions, refused=ex.refused, layers=ex.layers, wall=round(ex.wall, 1),
                                  cap=ex.cap_note))
        cov["samples"] += ex.samples
        if infos is not None:
            infos.append((spec, alpha, ex.infos))
        res.violations += ex.violations
        for k, v in ex.activations.items():
            res.activations[k] = res.activations.get(k, 0) + v
    res.coverage.update(cov)
    return cov
