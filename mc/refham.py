"""RefHam — dense numpy construction of the documented Hamiltonian (docs/source/conventions.md):
state ordering by energy (r,g,h / u,d), register tensor order, driving term per atom and addressed basis,
C6/R^6 n_i n_j whenever the Rydberg state is in the basis, XY exchange C3 (1-3cos^2 theta)/R^3 with masked
atoms decoupled while the SLM mask is on.  C6 is read from the JSON table, not from the device object."""
from __future__ import annotations

import itertools
import json
import os

import numpy as np

AB = {"ground-rydberg": ("g", "r"), "digital": ("h", "g"), "XY": ("d", "u")}  # (lower |a>, higher |b>)
RANK = ["r", "g", "h", "u", "d"]
_C6 = None


def c6(level: int) -> float:
    global _C6
    if _C6 is None:
        repo = os.environ.get("VERIF_REPO", "/repo")
        with open(os.path.join(repo, "pulser-core/pulser/devices/interaction_coefficients/C6_coeffs.json")) as f:
            _C6 = {int(k): float(v) for k, v in json.load(f).items()}
    return _C6[level]


def states_for(bases) -> list:
    st = set()
    for b in bases:
        st |= set(AB[b])
    return [s for s in RANK if s in st]


def _op(states, bra_ket):
    k, b = bra_ket  # |k><b|
    m = np.zeros((len(states), len(states)), dtype=complex)
    m[states.index(k), states.index(b)] = 1
    return m


def embed(ops: dict, n: int, dim: int):
    """Kronecker product over the register order with `ops[i]` at position i and identity elsewhere."""
    out = np.array([[1.0 + 0j]])
    for i in range(n):
        out = np.kron(out, ops.get(i, np.eye(dim)))
    return out


def hamiltonian(t: int, view: dict, bases, positions: list, *, level: int, c3: float, in_xy: bool, mag=None,
                masked=(), mask_end: int = 0, qids=None):
    """H(t) (rad/us) as a dense matrix. `view` = {basis: {q: (drive, det)}} from RefRender."""
    states = states_for(bases) if bases else (["u", "d"] if in_xy else ["r", "g"])
    dim = len(states)
    n = len(positions)
    H = np.zeros((dim**n, dim**n), dtype=complex)
    for basis in bases:
        a, b = AB[basis]
        if a not in states or b not in states:
            continue
        for i, q in enumerate(qids):
            drive, det = view[basis][q]
            if t >= len(drive):
                continue
            w = drive[t]  # Omega * exp(-i phi)
            single = 0.5 * w * _op(states, (a, b)) + 0.5 * np.conj(w) * _op(states, (b, a)) - det[t] * _op(states, (b, b))
            if np.any(single):
                H += embed({i: single}, n, dim)
    if "r" in states:
        nr = _op(states, ("r", "r"))
        for i, j in itertools.combinations(range(n), 2):
            R = np.linalg.norm(np.asarray(positions[i], dtype=float) - np.asarray(positions[j], dtype=float))
            H += c6(level) / R**6 * embed({i: nr, j: nr}, n, dim)
    elif "u" in states:
        sp, sm = _op(states, ("d", "u")), _op(states, ("u", "d"))  # sigma^+ = |1><0| = |d><u|
        B = np.asarray(mag, dtype=float)
        for i, j in itertools.combinations(range(n), 2):
            if t < mask_end and (qids[i] in masked or qids[j] in masked):
                continue
            v = np.zeros(3)
            pi, pj = np.asarray(positions[i], dtype=float), np.asarray(positions[j], dtype=float)
            v[: len(pi)] = pi - pj
            R = np.linalg.norm(v)
            cos = float(np.dot(v, B) / (R * np.linalg.norm(B)))
            U = c3 * (1 - 3 * cos**2) / R**3
            H += U * (embed({i: sp, j: sm}, n, dim) + embed({i: sm, j: sp}, n, dim))
    return H, states
