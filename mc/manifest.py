"""Generates /verif/MANIFEST.json from the table below:  python3 -m mc.manifest  (run from /verif)."""
from __future__ import annotations

import json
import os

VERIF = os.path.dirname(os.path.dirname(os.path.abspath(__file__)))

ALL = [f"C{i:02d}" for i in range(1, 21)]

# id -> (category, technique, level text, level note, design ref)
CLAIMS = {
    "C02": (
        'model_checking',
        'explicit-state BFS over call histories of the real Sequence; model-free invariants on every transition',
        'All histories up to depth 3-5 (per world, see evidence) over a 30-33 op timing alphabet (add x 3 protocols, delay, target, align, phase_shift, EOM and DMM ops, failing calls) on 8-10 channel configurations (incl. DMM declared first, two locals, and a fall-tail world: several idle slots of lengths around the rise time between a pulse and every consumer of its pending fall time, depth 4; two deep-root worlds starting from 9- and 16-call programs inside / after an EOM block; an EOM slower than its channel; an SLM mask in Ising mode; a maximum duration below the waits the channel needs) are executed on the real Sequence; tiling, clock alignment, minimum durations, prefix stability, reported durations and agreement of the three timeline views (schedule, str, sampler) are checked on every transition. Per-channel parameter overrides give a world in which two channels of one basis have clocks 1 and 4 (a phase barrier off the other grid). Worlds with a minimum duration that is not a multiple of the clock (automatic waits at or below the minimum) and with a never-targeted Local channel (no slot at all). EOM buffer times given by the device (custom_buffer_time) that sit off the clock grid or below the minimum duration, played as detuned idle pulses. The timing alphabet carries refused delays at rest on both channels: a failing call may neither remove nor add a slot.',
        'Bounded depth and alphabet; Pulse.fall_time trusted for the pending-fall-time clause (decided separately by C14).',
        'DESIGN.md §3 C02',
    ),
    "C03": (
        "model_checking",
        "explicit-state BFS over call histories; lock-step co-simulation with a reference scheduler (RefSched) re-seeded from "
        "the implementation's pre-state on every transition, plus model-free lower-bound monitors",
        "All histories up to depth 2-4 over 15-33 op alphabets on 15 two-channel worlds (global+local on different / same basis, "
        "two globals on one basis, global+DMM, two locals, two fall-tail worlds with idle slots around the rise time, DMM first with "
        "integer ids, two deep-root worlds, an EOM slower than its channel, an Ising SLM mask, max_duration below the waits; bandwidths "
        "None/8/30 MHz, mixed per-channel bandwidths): every accepted add / "
        "align / delay is compared with RefSched's earliest admissible start; min-delay / wait-for-all lower bounds, the "
        "phase-shift barrier, exactness of no-delay, estimate_added_delay == inserted delay (and purity) and align's common end "
        "are checked model-free on every transition. One world has clocks 1 vs 4 on one basis. min-delay / wait-for-all starts and at-rest alignments are also compared with a fall-time lower bound computed from the scheduled samples alone (documented Gaussian filter), with pulses whose amplitude ends smoothly while the detuning starts flat and ends high; one world has a minimum duration off the clock grid. The reference comparison includes where the phase-shift barrier sits (each atom's last-used time and shift times, also after DMM pulses and phase shifts). Two worlds give 8 MHz channels a phase-jump time of zero (below their 120 ns fall time), one from a root ending with an idle slot shorter than the fall time.",
        "Fall times of scheduled pulses are trusted inputs (C14). Detuned EOM idle slots on other channels may or may not count "
        "as pulses (both accepted). Bounded depth/alphabet.",
        "DESIGN.md §3 C03, Appendix A",
    ),
    "C07": (
        'model_checking',
        'explicit-state BFS over call histories with an independent phase accumulator + RefSched phase-reference equality; exhaustive Ramsey grid on the emulator',
        "All histories up to depth 3-5 over 14-21 op alphabets (shifts of 1, -0.5, 7 > 2pi, 2pi, 0 on atom subsets and bases, pulses with post-phase-shifts of either sign on global/local channels, retargets, EOM pulses) on 6 worlds (two channels on one basis, two bases, DMM configured before the first channel, two globals, and the mirror image with the local channel starting on the other atom, 3 atoms and integer qubit ids out of register order; EOM calls incl. a drift-corrected change of setpoint): per transition every (basis, atom) reference must change by exactly the op's increment (mod 2pi) and no other reference may move; every new pulse carries programmed phase + reference and starts after the latest shift of its targets. Ramsey pairs (two pi/2 pulses around a shift phi) are emulated for 29 phi values x 5 channel kinds x {phase_shift, post_phase_shift}, and for 10 phi values x 3 channel kinds with something in between (plain delay, zero-amplitude hold of 16 / 100 / 400 ns) x both protocols of the second pulse x phase-jump time {none, 200 ns} (1250 emulations): P = cos^2(phi/2) +- 1e-4. ArbitraryPhase pulses (constant and ramp phase) are in the alphabet; the accumulator takes the post-phase-shift from the op as written, not from the built Pulse. A world in which the second channel of a basis is declared mid-sequence, after phase shifts were accumulated on that basis. Every sequence of 2-3 builds of one template (concrete and mappable register, shifts before and after the first variable): references and pulse phases of each built sequence are the sum of its own shifts; earlier builds and the template stay put. The EOM alphabet includes drift-corrected enabling at a strong setpoint (no reference moves on a channel that has played nothing).",
        "EOM drift corrections are compared with the documented rule (RefSched); their physical correctness is C15's clause. Bounded depth/alphabet; phi grid.",
        'DESIGN.md §3 C07',
    ),
    "C10": (
        "model_checking",
        "explicit-state BFS over call histories on a catalog product of channel timing parameters; model-free gap monitors + "
        "RefSched equality",
        "All histories up to depth 3-5 over 10-11 op alphabets on corner configurations and on the product {phase-jump time "
        "derived/0/42} x {bandwidth none/8/30 MHz} x {clock 1/4} x {min duration 1/16} x {retarget interval 0/220} x {fixed "
        "retarget 0/30} (144 configurations; quick covers corners plus a seed-rotated twelfth chosen as a covering design - every value of "
        "every parameter and all four (retarget interval, fixed time) combinations in each slice -, thorough all; corners "
        "include fixed retarget time > interval, a fall-tail world, integer ids, an EOM slower than its channel and two channels "
        "whose max_duration is below the retarget interval / fall time / phase-jump time): phase-jump gap >= "
        "phase_jump_time + fall (>= 2 x EOM rise in EOM mode) unless no-delay, retarget interval / fixed time / ramp-down / "
        "same-target no-op on every state, exact gaps pinned by RefSched. enable / disable_eom_mode transitions are compared with RefSched as well.",
        "Fall times are trusted inputs (C14); in EOM mode only the weakest reading is enforced model-free. Bounded depth/alphabet.",
        "DESIGN.md §3 C10",
    ),
    "C09": (
        'fault_enumeration',
        'explicit-state BFS over valid call histories x exhaustive invalid-call and read-only menus at every reachable state; full-snapshot equality before/after; differential rebuild oracles',
        "Every state reachable by <= 2-4 valid calls (16-op core incl. EOM, DMM, variables, measure; XY world and a fresh sequence whose mode is still undetermined separately) is hit with each of 78 invalid calls (93 with the menus of the XY world and of a fresh, channel-less sequence) (one per failure cause and operation: durations, limits, targets, channels, names, modes incl. mode refusals of calls that carry a variable, protocols, over-long sequence via each op, foreign/unknown variables, calls after measure) and 14 read-only operations (str, sample +- modulation, draw with every flag, durations, phase refs, delay estimates, both serialisers, observers, build); a refused or read-only call must leave the full snapshot (timeline, EOM blocks, phase references, mode flags, call log) identical; every state must equal its build() copy, its switch_register(same register) copy, its switch_device(renamed identical device) copy and, up to depth 2-3, its abstract-repr round trip; every copy then receives calls of every kind (variable declaration, pulses, delays, phase shifts, align, channel declaration, measure) and the original must keep its full snapshot; finally the caller edits every list object it passed as an argument (targets, SLM qubits) and the record of calls and its replay must not follow. Attributes of the sequence that the snapshot does not know by name are carried generically, so a cache written by a read-only call is a state change. A copy that raises is named after the first prefix of the history after which it raises. Worlds: a channel-less sequence on non-reusable channels (DMM id taken by a pending SLM mask), an SLM mask on a DMM with stricter duration limits than the Global channel. Containers passed positionally and by keyword (target(qubits=[...]), config_slm_mask(qubits=[...])) and edited by the caller afterwards. A world in which every id collection is handed over as a dict view (keys()), which is a valid Collection that cannot be copied. A world in which every id collection is the caller's own set, edited after the call. Refused delays at rest (negative, below the minimum, above the maximum, over-long) on both channels.",
        'Known findings (non-atomic multi-step operations under max_sequence_duration, declare_channel with a bad initial target) are listed in known_findings.json. Bounded depth; fault menu as listed in mc/props/c09.py.',
        'DESIGN.md §3 C09',
    ),
    "C13": (
        "model_checking",
        "explicit-state BFS of a finite abstract typestate model to a fixpoint with every abstract transition replayed on the "
        "real Sequence through a witness history, plus concrete BFS with the model folded over each history and a mode-only "
        "consistency check",
        "A plain-Python typestate model (declared channels with id / EOM / target flags, XY-Ising-undecided, SLM reservation, "
        "measured, parametrized, empty) is explored breadth-first over a 45-op alphabet (incl. EOM / pulse ops on the second channel of each kind and "
        "variable-carrying pulse / EOM-pulse calls) covering the whole building API on a "
        "reusable and a non-reusable device; for every abstract state and op the witness history + op is executed on the real "
        "Sequence and accept/refuse plus the observers (declared/available channels, is_parametrized, is_measured, "
        "is_in_eom_mode) must agree, after accepted calls with the model's post-state and after refused calls with its pre-state "
        "(a refusal keeps the mode) (quick: 4000-state cap per device, reported as not exhaustive; thorough: to fixpoint). Concrete BFS to depth 3-4 on three worlds groups histories by model "
        "mode and requires identical accept vectors inside a group. Engine 3: 3 roots (concrete, concrete after ops, already parametrized) x 5 calls x 11 ways of handing a variable over (bare, list, tuple, set, frozenset, dict, dict key / value views, deque, object array, by keyword): accepted, parametrized afterwards, stored, inspection refused - whatever the container.",
        "Arguments are value-valid so only the mode can cause refusals; data-dependent cases are left undecided by the model "
        "(listed in mc/typestate.py); <= 2 DMM channels per state; one device uses integer qubit ids incl. the falsy 0.",
        "DESIGN.md §3 C13",
    ),
    "C15": (
        'model_checking',
        'explicit-state BFS over EOM call histories with RefSched equality and block monitors; exhaustive grid over EOM configurations x setpoints against an independent light-shift computation; exhaustive drift-corrected histories on the emulator',
        "(a) all histories up to depth 3-5 over a 13-16 op alphabet (enable / modify / EOM pulse / delay / disable, each with and without drift correction, on empty and non-empty channels, custom buffer 40 vs derived) on 3 worlds: pulses square at the latest setpoint, idle slots at the off-detuning, buffers and fall waits equal to RefSched; (b) 24 EOM configurations {limiting beam} x {controlled beams} x {multiple control} x {shift coefficients} x 5-10 amplitudes (below/at/above the limiting Rabi frequency) x 3 detunings x 21 optima + exact midpoints + the options themselves: option set equals an independent computation, choice is the closest option, stored choice reproduces itself; (c) every valid drift-corrected EOM history up to depth 3-4 is emulated and its final Rydberg population equals that of the same pulses at zero off-detuning (5e-5). One world gives the EOM a custom buffer time shorter than the channel's own fall time. Every state with an open EOM block is sampled with an extended duration: the idle tail sits at the block's off-detuning whatever the last slot. The emulated histories include a setpoint with a large off-detuning (-31.8 rad/us) and an ordinary pulse with an off-grid fall time before the block (16 ns clock). EOM alphabets with a strong off-detuning setpoint (-31.8 rad/us) so that idle time, buffers and drift corrections differ visibly from zero.",
        'Fall times trusted (C14). Populations compared at the final time only; single atom.',
        'DESIGN.md §3 C15',
    ),
    "C06": (
        'exploration',
        'explicit-state BFS over building histories; every reached state is sampled and compared nanosecond by nanosecond with an independent renderer (RefRender) of the timeline snapshot',
        'All states reachable within depth 3-4 over 8-15 op rendering alphabets (pulses of distinct shape / phase / detuning on every channel, retargets, multi-target local channel, EOM blocks left open, DMM with a weight map, XY with an SLM mask and two microwave channels, two globals on one basis, two locals, DMM declared first, automatic waits inside EOM blocks) on 12 worlds (incl. integer / string ids out of register order, a user-built zero-amplitude hold pulse with its own phase, an Ising SLM mask, two detuning maps on one DMM id, a detuning map built from its own coordinate array): per channel array lengths, amplitude, detuning and phase over each pulse; per atom and basis the complex drive and weighted detuning from both to_nested_dict layouts; extension by 1 and 37 ns pads with zeros / last phase / off-detuning. Idle time inside an EOM block is rendered from the block (mode), not from the kind of slot the implementation recorded. SequenceSamples.extend_duration to the longest channel, +1 and +37 ns next to the per-channel extension. States in which a declared channel has no slot at all (Local channel never targeted) are rendered too; the sampled channel names must be the declared ones. After an accepted target(Q, ch) the channel addresses exactly Q as written (also a subset of the previous targets). A world that begins with an EOM block of length zero; a monitor outside the renderer: idle time appended while no EOM block is open carries no amplitude and no detuning.',
        'Known findings: channels merged into one nested-dict entry are combined by adding amplitudes and phases (two globals on a basis; global+local with all_local=True); a merge model (sum of amplitudes and carried phases per entry) scopes these findings: a deviation that is not that sum has its own fingerprint. Phase between pulses is not compared.',
        'DESIGN.md §3 C06',
    ),
    "C05": (
        "exploration",
        "explicit-state BFS over building histories; for every reached program the emulator's Hamiltonian is compared at every "
        "integer nanosecond with an independent dense Kronecker construction (RefHam) fed by the timeline snapshot",
        "All programs reachable within depth 2-3 over 3-15 op alphabets on 15 worlds (two bases; global+local on one basis with a "
        "permuted atom order; DMM weight map on a 3D register; XY with an SLM mask and two microwave channels; XY with tilted / "
        "in-plane magnetic field on 2D and 3D registers; two globals on one basis; DMM declared first; integer and string qubit ids whose sorted / index order differs from the "
        "register order, in Ising, XY and DMM worlds; Ising mode with an SLM mask leaving one (of two / three) atoms unmasked; Rydberg "
        "levels 50/60/70/100): "
        "get_hamiltonian(t) == documented formula to 1e-9 and Hermitian to 1e-12 for every integer t, with the documented state "
        "ordering. XY world with four atoms of which two are masked. On every compared program the same emulator then goes through [amplitude / doppler / state-preparation noise] followed by reset_config or the default configuration and must again give the documented Hamiltonian with the programmed values; one world has a never-targeted Local channel declared first.",
        "Integer times only (QuTiP interpolates between samples); 2-3 atoms; C6 read from the JSON table, C3 = 3700. Known "
        "finding: two global channels on one basis.",
        "DESIGN.md §3 C05",
    ),
    "C01": (
        "exploration",
        "exhaustive boundary grids (full Cartesian products per limit group) through every pulse-adding entry point, judged "
        "by a predicate written from the statement; plus a limit monitor on every state of a call-history BFS",
        "Grid: 3205 (quick) / 9k (thorough) cases = channel configurations (each of max_amp, max_abs_detuning, min_avg_amp, "
        "max_duration, DMM bottom / total bottom independently undefined or set; clock 1/4; min duration 1/5/16) x 7 waveform "
        "kinds x values at, just inside and just outside each limit plus 0, NaN, +-inf, +-4e-7 past the detuning limit, "
        "durations around min / clock multiples / max; entry points add, add_dmm_detuning (sign, 4 weight maps), "
        "enable_eom_mode + add_eom_pulse, config_slm_mask. Both directions are checked: outside a limit => refused, inside "
        "every limit => accepted and scheduled unchanged (or only lengthened to the next clock multiple with the same defining "
        "parameters). Monitor: every pulse slot of every state of a depth 2-4 BFS on four worlds with / without limits; for every accepted "
        "transition ending at E the same call is re-issued with max_sequence_duration = E (must be accepted) and E-1 (must be "
        "refused). Two detuning maps of different largest weight configured on one DMM id, with detunings between the two per-atom limits. An SLM mask on a DMM whose clock / minimum / maximum duration differ from the Global channel's (the mask's automatic pulse must respect the DMM's own limits). Minimum-average x lengthened-duration grid (the pulse that is scheduled is judged), and histories in which a pulse at a limit is followed by its near twin (within Pulse.__eq__'s tolerance) outside the limit. After a pulse was accepted the caller edits in place every array it can read from it: the scheduled pulse stays the validated one. Every parametric waveform with its optional parameters (Kaiser beta, interpolation times, interpolator and the interpolator's own options: 12 option sets) as amplitude and as detuning at 4-8 durations off the clock (thorough: 3 clocks): what is scheduled equals the same waveform, options included, defined at the lengthened duration.",
        "Detuning values within 1e-6 of a limit are a don't-care band; custom / composite waveforms may be refused for "
        "non-clock-multiple durations; waveform samples trusted (C16).",
        "DESIGN.md §3 C01",
    ),
    "C16": (
        'exploration',
        'exhaustive grid (full Cartesian products) over waveform classes x durations x parameter values with oracles written from the class docstrings',
        '1.7k (quick) / 3.6k (thorough) cases, each running 10-200 assertions: every waveform class x durations {1,2,3,4,5,10,11,100,101} x parameters {-2,-1e-3,0,1e-3,1,20} (all pairs for ramps), interpolated waveforms with 2-4 points, explicit times incl. near-coincident ones and both interpolators, composite and custom waveforms: sample count and finiteness, documented values, window area / sign / symmetry, change_duration to two other durations, scaling by {-2,-1,0.5,1,3}, division incl. by zero, negation, equality vs sample-wise closeness on both sides of the numpy.isclose tolerance (one sample / all / positive / negative / alternating samples moved by 0.4 and 3 tolerances; waveforms of both signs whose integral cancels), every index and slice for durations <= 5; from_max_val for area x max_val x beta of both signs (never exceeds, exact area, one ns shorter would exceed for windows > 16 ns), and max_val placed just above / below the peak of the d-ns window for EVERY duration d = 17..259 (thorough ..699); pulses with phases {-7,-pi,-1e-12,0,1,2pi,7,100}; invalid pulses refused; ArbitraryPhase reproduces 6 phase-waveform kinds x 6 durations at every sample through phase_modulation. Object histories: every sequence of <= 3 (thorough 4) steps over 10 uses / caller-side edits (constructor buffers, arrays returned by samples / modulated_samples / pulse waveforms) on 6 waveform objects vs a pristine object, compared on the object itself and on what is derived from it afterwards (change_duration, scaling, negation) (6.7k histories). All-zero samples / values through every waveform class. Phases at the floats just below / at / just above k x 2 pi (k = 1..129, thorough 1..3000), both signs, and magnitudes up to 2^70 through 5 constructor arguments: stored value inside [0, 2 pi) and equal to the exact rational remainder. Ramps start exactly at their start value and never leave [start, stop] (exact comparisons) for every duration 2..80 (thorough ..400) x 6 non-dyadic end values x rising / falling x from 0 / from an offset.',
        "Grid values only; interpolated waveforms whose points coincide after rounding are a don't-care class.",
        'DESIGN.md §3 C16',
    ),
    "C19": (
        "exploration",
        "exhaustive enumeration of small coordinate sets in every permutation, with every trap selection, qubit-id "
        "assignment, mapping order and weight vector",
        "2553 coordinate sets (every subset of size 1-3 of a 21-point 2D grid and an 18-point 3D grid built from "
        "{-1,-1e-9,0,1,1+4e-7,1+6e-7,2}, plus 4/5-point sets with ties in (x,y); thorough adds all 4-subsets of 14 points) x "
        "every permutation = 13953 layouts: id->coordinate map canonical (x, then y, then z on rounded coordinates) and "
        "identical across permutations; ==, hash and static_hash order independent; every ordered selection of <= 3 trap ids "
        "with unsorted qubit ids places each qubit exactly on its trap and is inverted by get_traps_from_coordinates (rounded "
        "and raw coordinates); mappable registers built with every insertion order keep the declared order; detuning maps "
        "given in permuted order give each qubit its trap's weight, 0 off-trap, sorted weights aligned; positions from another array displaced by +-4e-7 (still on the trap, "
        "reaches -0.0) and +-3e-6 (off the trap). Object histories: every "
        "sequence of <= 3 (thorough 4) steps over 12 uses / caller-side edits (constructor argument; containers and arrays "
        "returned by traps_dict, coords, sorted_coords, register.qubits, weights) on one 2D / 3D layout built from an array or a "
        "list, compared after every step with a pristine layout of the same coordinates (7.5k histories). Every out-of-range trap id (-1, -n, n, n+1) must be refused by define_register and MappableRegister.build_register. The register constructor with layout= and every ordering of the right trap ids: only the qubits' own pairing is accepted. Coordinates exactly half way between two 1e-6 grid points (rounding ties) with direction-free consistency oracles; the lattice layouts (rectangular / square / triangular) and every register they define. Coordinates given as float32 / float16 / integer / Fortran-ordered arrays: same ids, equality, hashes, look-ups and weights as from a list.",
        "Grid values only; sets whose coordinates coincide after rounding must be refused or numbered consistently.",
        "DESIGN.md §3 C19",
    ),
    "C12": (
        'exploration',
        'exhaustive boundary grid of devices x registers / layouts with an exact rational-arithmetic oracle',
        '3461 cases: 16 devices {dimensions} x {max atoms} x {min distance} x {max radius} x 213 registers (one pair at d-1e-3, d-5e-7, d, d+1e-3, 0, 1e-7, 2e-6 along x and along a 3-4-5 direction with the violating pair at every index position, atoms at radius R-1e-3, R, R+1e-3, counts max / max+1, 3D registers, every atom order) through validate_register and Sequence(); expected accept / refuse and the exact offending pairs / atoms from Fractions; layout-based registers for fillings {0.5,1,0.4,0.45,0.57,0.35,0.29,0.58,0.07,0.7} x trap bounds x trap and atom counts around the limit (incl. exactly the maximum number of traps and products that are integers only in exact arithmetic); the atom-number limit on registers that come from a valid layout; automatic layouts on a physical device and max_connectivity registers must be accepted by their device (spacings within 1e-3 .. 5e-7 of the minimum distance on both sides); device construction (+ specs / docs rendering) for each optional parameter None / valid / boundary / invalid. Registers that already carry a foreign layout (too few / too many traps, beyond the radius, too dense, over-filled) through with_automatic_layout. Caller edits of the objects a layout hands out (traps_dict, coords, sorted_coords) x 3 geometries x 4 edits: verdicts of validate_layout / validate_register / Sequence / define_register before and after. Mappable registers: 5 (filling, trap count) pairs x declared ids at / below capacity x mapped ids {1, n-1, n} x max_atom_num {n-1, n, n+1, none} x first / last traps: build(qubits=...) is accepted exactly when the built register fits the device.',
        "Don't-care bands: distances within 1e-6 below the minimum, radii within 1e-14 relative of the maximum.",
        'DESIGN.md §3 C12',
    ),
    "C14": (
        'exploration',
        'exhaustive grids for the filter axioms and the fall-time clause (judged by an independent non-circular Gaussian convolution) plus a modulated-sampling monitor on every state of a call-history BFS',
        "Filter axioms for bandwidth {2,8,30,100} MHz x input length {1,2,3,16,100,401} x keep_ends x EOM x 9 input families: output length = input + 2 rise times, finite, integral preserved (1e-9), no negative output from non-negative input, no overshoot, pairwise linearity, tone at the bandwidth halved (through apply_modulation and, as steady-state gain, through Channel.modulate itself on the standard and the EOM path incl. bandwidths whose rise time 480/bw is not a whole number of ns); output lengths are checked before any arithmetic and a library call that raises on a valid waveform is a violation. Fall-time clause for bandwidth {2,4,8,30} (+4 more in thorough) x duration {16,52,100,401} x amplitude {0.1,1,20} x 11 amplitude and 6 detuning shapes (incl. composites ending in a short zero / low hold and sign-changing ramps) and EOM bandwidths 20/40: the true output beyond duration + Pulse.fall_time stays below max(0.01, 0.6 % of peak). Sequences: modulated sampling succeeds whenever plain sampling does and every array ends at the channel duration including fall time, on every state of a depth 2-3 BFS (empty channels, channels without bandwidth, open EOM blocks, DMM, EOM slower than / as fast as its channel). Channel bandwidths 240 / 300 / 479 MHz (just below the library ceiling); an exception raised while sampling an accepted sequence is a violation. Fall-time grid with BOTH waveforms of a pulse shaped (6 x 6 shapes x sign) and EOM-mode pulses of weak / zero amplitude and large detuning on 5 / 20 / 40 MHz EOMs. Sequence-level modulated VALUES: equal to the channel's own filter applied to what was scheduled (everywhere without EOM blocks, away from every block otherwise). The modulated amplitude of a channel carries the area of what was scheduled (EOM at least as fast as the channel); channels with a second EOM block after a closed one and blocks split by a new setpoint. The length of the modulated arrays is compared with the model's own account of the channel (end of the last instruction or of the last pulse's fall time, whichever is later), not only with the library's get_duration(include_fall_time=True). A world that begins with a zero-length EOM block.",
        'Reference filter = Gaussian impulse response of the documented transfer function on a zero-padded input; bandwidths where int() truncation of the rise time loses > 3 % (37, 44, 49 ... 100 MHz) exceed the 0.6 % clause by design margin and are not in the grid (DESIGN.md Appendix B #13).',
        'DESIGN.md §3 C14',
    ),
    "C08": (
        'exploration',
        'exhaustive program x deviation enumeration (ProgX): skeleton programs with every subset of numeric argument positions replaced by variable expressions; template.build(values) vs direct construction compared on canonical snapshots',
        "3.8k cases: 7 skeleton programs (all waveform classes, delays, phase shifts, EOM with drift correction, DMM, index targeting, XY; 6-12 numeric positions each) x every subset of positions turned into variable expressions (14 kinds: scalar, array item, 2v, v+1, -v, v/2, v**2, abs, sqrt, sin, floor, ceil, round, nested; whole-array variables for interpolation points), every kind at every single position and every kind pair on two positions; each template is built for assignments A, B in the orders A,B,A and B,A,A, after a failed build, and compared with the same calls issued directly on evaluated values (second pass: values handed over as caller-owned arrays edited in place); the template's full snapshot (incl. stored calls) must be unchanged by every build; every subset template is also built on a MappableRegister resolved at build time (any prefix of the program concrete); every ordered pair of 17 expression kinds / 5 waveform classes over the SAME variable and constant as two arguments of one template. Mappable registers: 3 unsorted declared-id orders x every injective mapping of 1-3 ids onto 4 traps x every mapping insertion order x every index: declared order, trap positions, index-based targeting and equality with direct construction on the concrete register. Whole-array variables read through a caller-owned index list which the caller reverses after writing the template. Rounding at exact ties (round half to even) and array literals as operands (scalar x array, array x array, array + array). All operators and functions of parametrized objects (exp, log, log2, cos, tan, tanh, floor-division and modulo both ways, powers, rounding to a decimal), from_max_val constructors, literal boundary values in the calls that follow the first variable (delay 0, zero phase shift, retarget to the current target). Target-less phase shifts on templates whose build places fewer qubits than declared. Non-integral index values (x.5, x.9999999, 0.8999999999999999, negative, out of range) supplied through a variable, an item, a product, a quotient and a sum to target_index / phase_shift_index on concrete and mappable registers: the build resolves them as the direct call does. Templates built while still being written: every skeleton x every position as a plain variable (alone and with the first position) x a build with the other assignment just before each of its calls, on concrete and mappable registers; the EOM controls both beams and the requested off-detuning lies between two options. Array arguments given as a slice of a longer array variable; a skeleton whose non-parametrized prefix shifts the phase of the last declared id; a non-default interpolator given positionally. Collections of indices that hold variables (list / tuple / set x 5 contents x concrete / mappable x positional / keyword; the whole array variable as control) built vs direct (known finding: they never build).",
        'Assignments restricted to those the direct construction accepts; phase-reference entries of unmapped qubits are ignored (unobservable).',
        'DESIGN.md §3 C08',
    ),
    "C04": (
        'exploration',
        'exhaustive program x deviation enumeration (ProgX) through both codecs with a differential oracle on canonical snapshots and an independently compiled schema validator',
        "1.2k (quick) / ~2k (thorough) programs (incl. a zero-length delay that still waits for the fall time): 5 program families covering every building operation x argument-style deviations (positional / keyword / omitted / explicit default; each alone and pairs) x registers {2D, 3D} x {plain, from a layout, mappable} x devices {inline virtual with EOM+DMM, MockDevice by name, custom physical with / without EOM} x parametrized variants (each numeric position alone and all together as variable expressions) x qubit ids {strings, integers 0..2, integers out of register order: decoded == the program written with str(id)}, plus the shared-operand expression pairs of C08. For each: document valid under the published schema (own validator) , decoding succeeds, device and register equal, decoded snapshot equal (or, when parametrized / mappable, builds for two assignments equal), encode-decode-encode is a fixpoint, measurement and variables equal, and encoding leaves the original's full snapshot (incl. call log) unchanged; abstract and legacy codecs. Custom devices that keep a built-in device's name with other specifications (physical and virtual) must come back with their own specifications. C08's skeleton templates (every expression kind at every position, incl. whole-array arguments combined with array literals) go through both codecs and must build to the same sequences. Every case runs in a freshly forked process; decoding histories (two documents with the same variable names but different sizes / types decoded one after the other) are single cases; parametrized programs x every single and pair of call-style deviations incl. keyword-only constructors; export with default values / default traps; detuning maps on every register kind. Declared channels of the still parametrized decoded sequence (derived from stored calls) equal the template's; built sequences are exported and decoded as well; SLM mask on the device's second DMM. Detuning maps whose traps are given in descending order (given order differs from layout order). Mappable templates are also built, before and after the round trip, with only the first m declared ids mapped. A skeleton with a non-default interpolator given positionally (refused by the abstract codec, kept by the legacy one). Slices of array variables as arguments; sequences built on a partial mapping are themselves exported and decoded (known finding: a phase shift on an unmapped id before the first variable makes such a built sequence unexportable).",
        'Channels compared as a name-keyed map. Known finding: numpy.round expressions are not exportable.',
        'DESIGN.md §3 C04',
    ),
    "C18": (
        'exploration',
        'exhaustive program x device-pair enumeration (ProgX) with a differential snapshot oracle (strict) and the C01/C02 predicates on the new device (non-strict)',
        '161 programs (every history of <= 2 ops over a 12-op alphabet incl. EOM with drift correction, DMM, retarget, align, phase changes; plus 4 long ones) and 15 auxiliary programs (EOM set points next to the detuning limit; the same DMM id configured twice before / after parametrization; SLM mask with default / positional / keyword DMM id before and after the first channel or pulse in Ising, XY and undetermined mode, magnetic field, measurement, variables) x 81 ordered device pairs (base <-> 28 single-parameter variants incl. a renamed identical device, to which every switch must succeed and change nothing; of clock, min duration, bandwidth, phase-jump time, retarget interval, fixed retarget time, EOM bandwidth / buffer / beams / absence, amplitude / detuning / duration limits, reusability, Rydberg level, max sequence duration, DMM bottoms; base -> 25 two-parameter variants; thorough: all 300 pairs of variants) x strict in {True, False} = 24.6k switches: strict either raises or returns an identical timeline / EOM blocks / phase references; non-strict either raises or satisfies every limit of the new device with a well-formed timeline; the original is never modified; switch_register to an equal, a moved and a re-ordered register keeps the timeline; to a MappableRegister with the same ids it is refused or keeps every stored instruction and builds to the original timeline; parametrized programs are compared after building both sides. Programs with two Global channels (Raman and Rydberg) aligned with phase shifts across the switch. Device variants with a fixed retarget time off the clock grid (with and without a minimum retarget interval). max_sequence_duration swept through the last 14 ns of every two-op program as it plays on 5 new devices whose grids re-round the automatic waits: the non-strict switch raises or returns a sequence inside the limit.',
        "Consecutive plain delays are merged and derived DMM channel names normalised before comparing strict switches. Known findings: strict ignores min_duration, the SLM-mask DMM's bottom detuning and the off-detuning of an open, still empty EOM block. Idle periods at one off-detuning are merged, only the current phase reference is compared.",
        'DESIGN.md §3 C18',
    ),
    "C17": (
        'exploration',
        'exhaustive grids per class (optional fields default / non-default, every subset of noise types) with == and deep field-by-field comparison after the JSON round trip, plus every construction/decoding order of three instances per class with deep snapshots of the earlier ones',
        '704 (quick) cases: 190+ noise models (every subset of the 7 noise types through each activating parameter variant, leakage) - active types exactly those set, abstract round trip equal, NoiseModel -> SimConfig -> NoiseModel preserves types and every relevant parameter; ~400 virtual devices (12 optional fields: all singles, pairs, all) x 5 channel sets (EOM with every optional field non-default, EOM controlled beams in every selection and order, DMM, default noise model, custom ids, channels / DMMs listed in reverse order) + 6 physical variants; registers 2D/3D x 6 atom orders x 3 id sets x with/without layout, layouts, detuning maps with traps in all 24 orders through a sequence; 135 emulation configs (observable sets x evaluation times x initial states x noise models) incl. operators with complex coefficients; aliasing for StateRepr / NoiseModel / VirtualDevice / Register in all 6 orders. Registers, layouts and device layouts with negative-zero / tiny negative coordinates. Physical devices whose calibrated layouts share a slug, have no slug, or list one layout twice. Effective-noise rates of exactly 0; every noise type inside emulation configurations. Boolean options of a configuration given as numpy booleans / 0 / 1. Results whose evaluation times are not short decimals (k/3, k/7, full grids) through to_abstract_repr / from_abstract_repr. Layouts with the same traps and different slugs (and three distinct layouts) through the public layout codec in every order. Registers filling every trap of their layout, all but one, a third, and one atom on a one-trap layout (2D / 3D): layout, slug, trap table and trap ids survive.',
        'Fields excluded from == by the dataclass (short_description) are not compared; layout subclasses compared by traps+slug.',
        'DESIGN.md §3 C17',
    ),
    "C11": (
        'exploration',
        'exhaustive sweeps on the real emulators: every integer duration, programs x noise x evaluation-time settings, every basis-state tuple, and every tape of numpy.random answers (owned RNG)',
        "67k cases (quick): every duration 4..1500 ns (thorough 12000) of a resonant pulse - legacy norm, analytic Rabi population, V2 backend returns and stores the same final state; 10 programs (incl. an idle period before a short pulse) x 7 noise configurations x 4 evaluation-time settings x sampling rates {1, 0.5, (0.1)} - every stored state normalised / unit-trace / Hermitian / positive, times ascending, V2 == legacy at equal times, zero drive keeps the state; every basis-state tuple of 1-4 atoms in each of 8 eigenbases x measurement bases as ket and density matrix -> documented bitstring through the legacy result object and the V2 state, and uniform / weighted superpositions and mixtures over all basis states -> documented distribution; every tape of RNG answers (interval interiors, both end points, rate-/rate/rate+) for 1-2 shots on 4 distributions x 4 detection-error settings against a reference function of the tape (V2 state and legacy results object); state-preparation errors: every pattern of badly prepared atoms over 2-3 runs; the legacy emulator as a stateful object: every history of <= 3 (thorough 4) configuration calls (set_initial_state x 3, set_config x 3, add_config x 3, reset_config, set_evaluation_times x 3, run, observers) on one emulator vs a fresh emulator configured with the net settings of a reference model (3.8k histories); reduced states get_state(reduce_to_basis=...) of three-level runs vs the projection of the full state. Resonant drives made of several unequal constant segments and idle periods: final population == sin^2(area/2) on the three emulator entry points. The measured (pseudo-density) state of the legacy results follows the same convention: <reads-as-1 projector> per atom for every basis incl. the leakage bases x every basis state x detection-error rates. Legacy sampled results (NoisyResults): deterministic corners (eta in {0, 1}, vanishing amplitude spread, detection rates in {0, 1}) and scripted state-preparation patterns; evaluation-time sets with times closer than one sample to the start / end / one another on both APIs; the older QutipBackend and device default noise models as further entry points. With every sample stored, the state returned for a stored time is the state of that time (known finding: first match within one sample). User-supplied initial states in every accepted form (array, Qobj, QutipState through QutipBackendV2) x overall factors (1, 2, 0.25, 3j) x supports with nothing driven: the emulated state is the normalised labelled one. The same options through the generic EmulationConfig (sampling rate as a backend-specific extra): same final state as with the backend's own configuration class.",
        'Solver tolerances as listed in the evidence; Rabi value required within the range spanned by effective durations [T-1, T]; large-shot statistics are not decided.',
        'DESIGN.md §3 C11',
    ),
    "C20": (
        'exploration',
        'exhaustive grids of states x Hamiltonians / operator representations x observables against numpy trace definitions; end-to-end V2 runs over evaluation-time configurations; BitStrings under enumerated RNG tapes',
        '22.9k cases (quick): a 9-member state family (basis states, uniform, signed/complex, entangled, 1/4-3/4 mixture, maximally mixed, diagonal) as ket and density matrix x 6 eigenstate sets (2, 3, 4 levels) x 1-3 qudits x 3 Hamiltonians: Occupation, CorrelationMatrix, Energy, EnergySecondMoment, EnergyVariance, Fidelity / overlap against every member given as ket and as density matrix (incl. a mixture with complex off-diagonal elements), Expectation of a non-Hermitian operator, operator +, scalar*, @ and apply_to == matrix algebra; 6 operator-representation shapes and 4 amplitude sets per (levels, qudits) == explicit Kronecker products, probabilities and basis-state indexing; end-to-end runs over per-observable time lists (unsorted, near-duplicate) x default times x noise: ascending unique times, retrieval by observable and tag, stored values == definitions on the stored state and noiseless Hamiltonian; BitStrings under every tape of a 6-value menu per draw x detection-error settings; every sequence duration 16..329 ns (thorough ..1499) x 6 evaluation-time lists not starting at 0: exactly one stored value per requested time; the Results store itself: every subset (<= 4) of a 9-point time grid with neighbours closer than 1e-5 relative, every value retrievable by exactly its own time, by observable and by tag. Operator representations in which several single-qudit operators share projector keys but not coefficients (X / Y / Z / identity written out) vs an explicit Kronecker construction. End-to-end runs repeated with output modulation (emulated duration longer than the programmed one): stored energies equal Tr[rho(t) H(t)^k] with H at the emulated time. Tag clashes between observables of different classes (tag suffixes that make two tags coincide). Histories of evaluations: every ordered pair of eigenstate tuples of one dimension sharing a label x that label as one_state x 1-2 qudits, Occupation and CorrelationMatrix on the first then on the second, each history in a freshly forked process.',
        'Known finding: observables with own evaluation times are also stored at the default times.',
        'DESIGN.md §3 C20',
    ),
}

PENDING_REASON = "check not built yet in this round (design in DESIGN.md §3); nothing is claimed for it"


def build() -> dict:
    checks = []
    for pid in ALL:
        if pid not in CLAIMS:
            continue
        cat, tech, text, note, ref = CLAIMS[pid]
        checks.append(
            {
                "property_id": pid,
                "quick_cmd": f"./check {pid} quick",
                "thorough_cmd": f"./check {pid} thorough",
                "evidence_file": f"evidence/{pid}.json",
                "replay_cmd_template": f"./check {pid} --replay {{path}}",
                "engine": "mc",
                "level_claimed": {"category": cat, "text": text, "design_ref": ref},
                "level_note": note,
                "technique": tech,
            }
        )
    return {
        "version": 1,
        "setup_cmd": "./check --selftest",
        "hooks": {
            "guard": "PULSER_VERIF",
            "enable": "no source hooks are needed: checks import /repo's working tree via PYTHONPATH (see ./check); "
            "PULSER_VERIF=1 is exported but nothing in /repo reads it",
            "baseline_off_cmd": "cd /repo && /venv/bin/python -m pytest -ra -q -p no:cacheprovider --timeout=900 "
            "--continue-on-collection-errors",
            "source_commits": [],
            "add_only": True,
        },
        "engines": [
            {
                "name": "mc",
                "path": "mc/",
                "serves_properties": sorted(CLAIMS),
                "kind_free_text": "hand-written bounded exhaustive explorers in Python (SeqX call-history BFS with canonical "
                "state hashing, GridX boundary grids, ProgX program x deviation enumeration, EnvX RNG tapes) driving the real "
                "pulser code, with plain-Python reference models stepped in lock-step",
            }
        ],
        "checks": checks,
        "not_applicable": [{"property_id": p, "reason": NA.get(p, PENDING_REASON)} for p in ALL if p not in CLAIMS],
        "notes": "All checks run /venv/bin/python against /repo's working tree (PYTHONPATH), never the installed pulser wheel.",
    }


NA: dict = {}

if __name__ == "__main__":
    with open(os.path.join(VERIF, "MANIFEST.json"), "w") as f:
        json.dump(build(), f, indent=1)
        f.write("\n")
    print("MANIFEST.json written:", len(CLAIMS), "claimed")
