"""CLI of the verification machinery:  python -m mc.run <ID> quick|thorough | <ID> --replay <path> | --selftest.

Exit codes: 0 property held on everything explored (known findings are printed);
1 + "VIOLATION property=<id> replay=<path>" for a violation that is not a listed finding;
2 harness error (never a verdict about the property).
"""
from __future__ import annotations

import importlib
import json
import os
import sys
import time
import traceback

VERIF = os.path.dirname(os.path.dirname(os.path.abspath(__file__)))


def _assert_tree() -> None:
    repo = os.environ.get("VERIF_REPO", "/repo")
    import pulser
    import pulser_simulation

    for mod in (pulser, pulser_simulation):
        if not os.path.realpath(mod.__file__).startswith(os.path.realpath(repo) + "/"):
            print(f"HARNESS-ERROR: {mod.__name__} imported from {mod.__file__}, not from {repo}")
            sys.exit(2)
    import warnings

    warnings.simplefilter("ignore")


def selftest() -> int:
    _assert_tree()
    import jsonschema  # noqa: F401

    from mc import snapshot, worlds

    snapshot.selfcheck()
    worlds.selfcheck()
    with open(os.path.join(VERIF, "MANIFEST.json")) as f:
        man = json.load(f)
    schema_path = "/root/.vp/MANIFEST.schema.json"
    if os.path.exists(schema_path):
        jsonschema.validate(man, json.load(open(schema_path)))
    for c in man["checks"]:
        importlib.import_module("mc.props." + c["property_id"].lower())
    print(f"selftest ok: {len(man['checks'])} checks registered")
    return 0


def main(argv: list[str]) -> int:
    if not argv or argv[0] in ("-h", "--help"):
        print(__doc__)
        return 2
    if argv[0] == "--selftest":
        return selftest()
    pid = argv[0].upper()
    _assert_tree()
    from mc import evidence

    mod = importlib.import_module("mc.props." + pid.lower())
    if len(argv) >= 3 and argv[1] == "--replay":
        return evidence.run_replay(pid, mod, argv[2])
    tier = argv[1] if len(argv) > 1 else os.environ.get("VERIF_TIER", "quick")
    if tier not in ("quick", "thorough"):
        print("tier must be quick or thorough")
        return 2
    seed = int(os.environ.get("VERIF_SEED", "0") or 0)
    t0 = time.time()
    try:
        res = mod.run(tier, seed)
    except evidence.HarnessError as e:
        print(f"HARNESS-ERROR: {pid}: {e}")
        return 2
    except Exception:
        traceback.print_exc()
        print(f"HARNESS-ERROR: {pid}: unexpected exception in the check itself")
        return 2
    return evidence.finish(pid, tier, seed, res, time.time() - t0)


if __name__ == "__main__":
    sys.exit(main(sys.argv[1:]))
