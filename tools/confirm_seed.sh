#!/bin/bash
# confirm_seed.sh <worktree> <seed-id>   e.g. /tmp/wt/C03 C03a
# Confirms a sub-agent's seeded change independently: demo fails with the change / passes without it, the
# repository's own tests pass against the changed worktree; then stores it under /verif/seeded/<seed-id>/.
set -u
WT="$1"; SID="$2"; OUT=/verif/seeded/$SID
PP="$WT/pulser-core:$WT/pulser-simulation"
mkdir -p "$OUT"
git -C "$WT" diff > "$OUT/patch.diff"
[ -s "$OUT/patch.diff" ] || { echo "empty diff"; exit 1; }
cp "$WT/_demo/demo.py" "$OUT/demo.py"
cp "$WT/_demo/meta.json" "$OUT/agent_meta.json" 2>/dev/null
(cd "$WT" && PYTHONPATH=$PP MPLBACKEND=Agg /venv/bin/python -W ignore _demo/demo.py >/tmp/demo_mod.out 2>&1); MOD=$?
# NB: no git stash here — the stash is shared by all worktrees of a repository
git -C "$WT" apply -R "$OUT/patch.diff" || { echo "cannot reverse patch"; exit 1; }
(cd "$WT" && PYTHONPATH=$PP MPLBACKEND=Agg /venv/bin/python -W ignore _demo/demo.py >/tmp/demo_base.out 2>&1); BASE=$?
git -C "$WT" apply "$OUT/patch.diff"
TESTS=$(/verif/tools/treetests.sh "$WT" | tr '\n' ';')
echo "demo modified exit=$MOD unmodified exit=$BASE tests: $TESTS"
python3 - "$OUT" "$MOD" "$BASE" "$TESTS" <<'PY'
import json,sys,os
out,mod,base,tests=sys.argv[1:5]
am={}
try: am=json.load(open(os.path.join(out,'agent_meta.json')))
except Exception: pass
meta={"property":am.get("property"),"summary":am.get("summary"),"needs":am.get("needs"),"files":am.get("files"),
 "confirmed":{"demo_exit_with_change":int(mod),"demo_exit_without_change":int(base),
   "tree_tests_with_change":tests,"how":"tools/confirm_seed.sh: demo run with/without the patch (git apply -R / git apply) in the scratch worktree; repository tests run against the patched worktree with PYTHONPATH"},
 "detected_by":None}
json.dump(meta,open(os.path.join(out,'meta.json'),'w'),indent=1)
PY
tail -3 /tmp/demo_mod.out
