#!/bin/bash
# try_seed.sh <seed-id> <tier> <check> [<check>...] : apply a seeded change to /repo, run checks, undo it.
SID="$1"; TIER="$2"; shift 2
[ -z "$(git -C /repo status --porcelain)" ] || { echo "/repo not clean"; exit 2; }
git -C /repo apply "/verif/seeded/$SID/patch.diff" || exit 2
for c in "$@"; do
  out=$(cd /verif && ./check $c $TIER 2>&1); rc=$?
  echo "== $SID vs $c $TIER: exit $rc"; echo "$out" | grep -v "^VIOLATION" | cut -c1-300 | tail -6
done
git -C /repo checkout -- . ; git -C /verif checkout -- evidence 2>/dev/null
[ -z "$(git -C /repo status --porcelain)" ] || echo "WARNING: /repo not clean after revert"
