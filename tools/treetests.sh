#!/bin/bash
# Runs the repository's own tests against a given tree (default /repo) and prints the failing test ids.
# The pinned baseline command imports the installed pulser wheel and is blind to the tree; this is the
# stronger gate used for fix: commits and for seeded mutations.
T="${1:-/repo}"; shift
cd "$T" && PYTHONPATH="$T/pulser-core:$T/pulser-simulation" PYTHONDONTWRITEBYTECODE=1 MPLBACKEND=Agg \
  /venv/bin/python -m pytest tests -q -p no:cacheprovider -n ${NPROC:-10} "$@" 2>&1 | grep -E "^(FAILED|ERROR)|passed|failed" | sort
