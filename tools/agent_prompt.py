# usage: python3 tools/agent_prompt.py <PID> [<variant letter>]  -> prompt text for a seeding sub-agent (worktree /tmp/wt/<PID><variant>)
import json,sys
pid=sys.argv[1]; variant=sys.argv[2] if len(sys.argv)>2 else ""
props={json.loads(l)['id']:json.loads(l) for l in open('/verif/properties.jsonl')}
p=props[pid]
import os
PREV=""
prevs=[]
for v in "abcdefghijkl":
    if v == variant: break
    mp=f"/verif/seeded/{pid}{v}/meta.json"
    if variant and os.path.exists(mp):
        prevs.append((json.load(open(mp)).get("summary") or "")[:450])
if prevs:
    PREV="\nPrevious changes already made for this property were:\n"+"\n".join(f"  ({i+1}) {t}" for i,t in enumerate(prevs))+"\nYour change must use a DIFFERENT mechanism, in a different function, and break a different clause of the property than those.\n"
wt=f"/tmp/wt/{pid}{variant}"
print(f"""You are helping test a verification effort for the Python library pasqal-io/Pulser (pulse-sequence composer for neutral-atom devices).
Your scratch git worktree of the repository is {wt} . Work ONLY inside {wt} (and scratch files under {wt}/_demo/). Do NOT read or write anything under /verif, /repo, /root/.vp or /root/.claude, and do not look at other directories under /tmp/wt.

IMPORTANT environment facts:
- The worktree's code is imported with: PYTHONPATH={wt}/pulser-core:{wt}/pulser-simulation /venv/bin/python -W ignore ...   (without that PYTHONPATH, python imports a different, newer installed pulser — always set it, and assert pulser.__file__.startswith("{wt}")).
- The repository's own tests are run against the worktree with:
  cd {wt} && PYTHONPATH={wt}/pulser-core:{wt}/pulser-simulation /venv/bin/python -m pytest tests -q -p no:cacheprovider -n 6 -x
  (about 1-2 minutes; on the unmodified worktree everything passes). No network is available.

Here is a semantic property of Pulser that is supposed to hold for EVERY input / history, not only the ones the tests sample:

  Title: {p['title']}
  Statement: {p['statement']}
  Quantified over: {p['quantifier']['text']}
  Code anchors: {', '.join(p['anchors']['files'])}

{PREV}
TASK: produce ONE realistic change (a plausible bug, regression or "optimisation" a developer could introduce) to the library source in {wt} (files under pulser-core/ or pulser-simulation/, NOT the tests) such that:
 1. the code still imports and the repository's own test-suite, unedited, still passes completely when run against the modified worktree (run it, with the command above, and confirm);
 2. the property above is violated by the modified code;
 3. the violation needs something specific to manifest — a particular multi-step sequence of operations, an unusual but valid input, a particular channel/device configuration, a boundary value, or two cooperating sites that each look fine alone — NOT something that ordinary use would expose at once (it must not break simple everyday sequences, since the tests must keep passing);
 4. the change is small (a few lines), looks innocent, and touches real logic in the anchored code (not an `if input == magic` special case, no sabotage keyed on magic constants or names).
Then write a demonstration script {wt}/_demo/demo.py (plain python, no pytest needed) that exits 0 on the unmodified code and exits non-zero (assertion failure that states what is wrong) on the modified code. Verify both. To test the demo against the unmodified code do NOT use `git stash` (the stash is shared between worktrees and other people use it concurrently); instead: `git -C {wt} diff > {wt}/_demo/change.patch && git -C {wt} apply -R {wt}/_demo/change.patch`, run the demo, then `git -C {wt} apply {wt}/_demo/change.patch` to restore your change.

When done, leave the modification applied in the worktree (uncommitted), and write {wt}/_demo/meta.json with keys: "property" ("{pid}"), "summary" (what the change does), "needs" (what is needed for the violation to manifest), "files" (list of changed files), "tests_run" (the command you ran and its summary line), "demo_unmodified_exit" and "demo_modified_exit".
Your final answer should be a short summary: the diff (git -C {wt} diff), how the demo fails, and the test-suite result line. Do not commit anything.""")
