#!/bin/bash
# all_seeds.sh [tier [seed-id ...]]: applies every seeded change (or only the listed ones, in the order given) in turn to /repo, runs the check(s) recorded in its meta.json and reverts.
# Prints one line per seed; a seed is detected when the check exits 1 with a VIOLATION line.  /repo must be clean and idle.
TIER=${1:-quick}; shift
cd /verif
if [ $# -gt 0 ]; then LIST=""; for x in "$@"; do LIST="$LIST seeded/$x/"; done; else LIST=$(ls -d seeded/C*/); fi
for d in $LIST; do
  sid=$(basename $d)
  checks=$(python3 -c "import json;print(json.load(open('$d/meta.json'))['detected_by']['checks'].split(',')[0].strip())")
  [ -z "$(git -C /repo status --porcelain)" ] || { echo "/repo not clean"; exit 2; }
  if ! git -C /repo apply "/verif/$d/patch.diff" 2>/dev/null; then echo "$sid PATCH-DOES-NOT-APPLY"; continue; fi
  out=$(./check $checks $TIER 2>&1); rc=$?
  nv=$(echo "$out" | grep -c "^VIOLATION")
  mkdir -p /root/seedlogs; echo "$out" | grep -v "^KNOWN" | cut -c1-400 > /root/seedlogs/$sid.log
  git -C /repo checkout -- .
  echo "$sid $checks exit=$rc violations=$nv"
done
git -C /verif checkout -- evidence 2>/dev/null
