#!/bin/bash
# try_wt.sh <seed-id> <tier> <check> [<check>...] : run checks against the sub-agent's scratch worktree /tmp/wt/<seed-id> (change applied
# there), without touching /repo.  Only for triage while /repo is busy; the recorded detection uses try_seed.sh / all_seeds.sh on /repo.
SID="$1"; TIER="$2"; shift 2
for c in "$@"; do
  out=$(cd /verif && VERIF_REPO=/tmp/wt/$SID ./check $c $TIER 2>&1); rc=$?
  echo "== $SID vs $c $TIER: exit $rc"; echo "$out" | grep -v "^VIOLATION" | grep -v "^KNOWN" | cut -c1-300 | tail -6
done
