"""Coverage-mode launcher (diagnostic only, not a registered check): runs `mc.run <ID> <tier>` with worker pools shut down
gracefully so that coverage.py can save the workers' data.  Used to list library lines no check executes."""
import multiprocessing.pool as mpp
import runpy
import sys

_orig = mpp.Pool.terminate


def _graceful(self):
    try:
        self.close()
        self.join()
    except Exception:
        _orig(self)


mpp.Pool.terminate = _graceful
mpp.Pool.__exit__ = lambda self, *a: _graceful(self)
sys.argv = ["mc.run"] + sys.argv[1:]
runpy.run_module("mc.run", run_name="__main__")
